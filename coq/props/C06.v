(* C06 - cancelling the context stops the evaluation and everything it started.
   Property theorems only; each is closed by [exact] of a lemma proved in proofs/VmConcProofs.v.

   Model (model/VmConc.v): one evaluation = its context, its halt flag, its watcher goroutine and a growing list
   of script threads (thread 0 is risor.Eval's own goroutine; go / spawn / f.spawn add threads that run on
   clones).  A thread is a control stack over program shapes: loops, ticks, blocking primitives (channel
   send/receive/range, sleep, thread wait), callback-carrying builtins (each/map/filter/sorted/call/try),
   spawns and script calls, nested to any depth.  Actions: cancel the context, let the watcher goroutine run,
   step thread i (one poll + instruction, one callback dispatch, one frame of unwinding, or one wake-up from a
   select).  [run shares sched c] applies a schedule; shares = true is the code as it is (Clone() copies the
   pointer to the run's halt flag), shares = false the code before b731f6b. *)
From Coq Require Import List Bool Arith Lia.
Require Import RV.model.VmConc RV.proofs.VmConcProofs.
Import ListNotations.

(* C06_inv: in every reachable state of every program under every schedule, every script thread - the
   evaluation itself, callbacks (they run on the same thread), and every clone started by go/spawn at any
   nesting depth - polls the run's halt flag; and that flag is set only after the context was cancelled. *)
Theorem C06_inv : forall (s : shape) (sched : list action),
  let c := run true sched (init s) in
  Forall (fun t => tshare t = true) (threads c) /\ (flag c = true -> cancelled c = true).
Proof. exact governed_reachable. Qed.

(* One step of a governed thread after the watcher's step: it is never blocked, executes no tick(), starts no
   thread, and its remaining-steps bound strictly decreases. *)
Theorem C06_progress_step : forall (shares : bool) (c : cstate) (t : thread),
  cancelled c = true -> flag c = true -> tshare t = true -> tdone t = None ->
  let o := step_thread shares c t in
  steps_left (o_thread o) < steps_left t /\ o_tick o = false /\ o_spawn o = None /\ o_mark o = false /\
  enabled c t = true.
Proof. exact step_progress. Qed.

(* C06_progress (bounded response): after the watcher's step, under EVERY schedule, no tick is added, no thread
   appears, and thread i has finished once it was given steps_left t of its own steps - a bound that depends only
   on the depth of its control stack (3 per frame, 3 per pending callback of a builtin), not on any loop. *)
Theorem C06_progress : forall (shares : bool) (sched : list action) (c : cstate) (i : nat) (t : thread),
  halted c -> nth_error (threads c) i = Some t ->
  let c' := run shares sched c in
  halted c' /\ ticks c' = ticks c /\ length (threads c') = length (threads c) /\
  (steps_left t <= count_steps i sched ->
   exists t', nth_error (threads c') i = Some t' /\ tdone t' <> None).
Proof. exact bounded_response. Qed.

(* Fairness is the stated hypothesis: under every fair infinite schedule, from the watcher's step on a point is
   reached after which every thread of the evaluation is finished (Eval has returned, nothing it started runs),
   and the tick counter never moves again. *)
Theorem C06_all_stop : forall (shares : bool) (f : nat -> action) (c : cstate),
  halted c -> fair f ->
  (exists n, forall m, n <= m -> all_done (run shares (prefix f m) c) = true) /\
  (forall m, ticks (run shares (prefix f m) c) = ticks c).
Proof. exact halted_all_stop. Qed.

(* From the cancellation itself: in any reachable state in which the context is cancelled, a fair schedule lets
   the watcher run (n0 steps), and then the above holds. *)
Theorem C06_cancel_to_quiescence : forall (s : shape) (sched : list action) (f : nat -> action),
  let c := run true sched (init s) in
  cancelled c = true -> fair f ->
  exists n0, (exists n, forall m, n <= m -> all_done (run true (prefix f (n0 + m)) c) = true) /\
             (forall m, ticks (run true (prefix f (n0 + m)) c) = ticks (run true (prefix f n0) c)).
Proof. exact cancelled_all_stop. Qed.

(* Which error comes back.  Guarded statement (G = idclean: the program uses neither thread.wait nor a callback
   builtin other than try): every error any thread unwinds with or ends with is the context's own error. *)
Theorem C06_error_identity_guarded : forall (shares : bool) (s : shape) (sched : list action),
  idclean s = true ->
  let c := run shares sched (init s) in
  forall t, In t (threads c) ->
    (forall e, tmode t = Unwind e -> e = ECtx) /\ (forall e, tdone t = Some (TErr e) -> e = ECtx).
Proof. exact clean_error_identity. Qed.

(* ------------------------------------------------------------------ the full statement about the returned error is false *)
Definition after_cancel (pre : list action) : list action := pre ++ [ACancel; AFire] ++ repeat (AStep 0) 30.
Definition returns (s : shape) (sched : list action) (r : tres) : Prop :=
  let c := run true sched (init s) in cancelled c = true /\ flag c = true /\ main_result c = Some r.

(* [1,2,3].each(func(x) { for { tick() } }) cancelled inside the callback: Errorf(err.Error()) *)
Theorem C06_refuted_callback_error_text : exists s sched, returns s sched (TErr ECtxText).
Proof. exists (Callback CbEach 3 (Forever Tick)), (after_cancel (repeat (AStep 0) 5)). vm_compute. auto. Qed.
(* t := spawn(...); t.wait() cancelled while waiting: "wait error: context canceled" *)
Theorem C06_refuted_wait_error_text : exists s sched, returns s sched (TErr EWait).
Proof.
  exists (Seq (Spawn (Block BRecv)) (Block BWait)), (after_cancel [AStep 0; AStep 0; AStep 0; AStep 0; AStep 1]).
  vm_compute. auto.
Qed.
(* try(func() { for { tick() } }) as the last expression: the cancellation is swallowed, Eval returns nil, nil *)
Theorem C06_refuted_try_swallows : exists s sched, returns s sched TOk.
Proof. exists (Callback CbTry 0 (Forever Tick)), (after_cancel (repeat (AStep 0) 5)). vm_compute. auto. Qed.
(* for x := range c { } ; tick() : the loop over a channel nobody closes ends silently when the context is done,
   and the code after it completes before the watcher has run *)
Theorem C06_refuted_wakes_silently : exists s sched,
  let c := run true sched (init s) in cancelled c = true /\ main_result c = Some TOk /\ 0 < ticks c.
Proof.
  exists (Seq (Block BNext) Tick), ([AStep 0; AStep 0; ACancel] ++ repeat (AStep 0) 6 ++ [AFire]).
  vm_compute. auto.
Qed.

(* ------------------------------------------------------------------ regression: the code before b731f6b *)
Theorem C06_noclone_refuted_spawned_loop : exists s sched,
  let c := run false sched (init s) in
  cancelled c = true /\ flag c = true /\ main_result c = Some (TErr ECtx) /\
  forall n, let c' := run false (concat (repeat [AStep 1; AStep 1] n)) c in
            ticks c' = n + ticks c /\ all_done c' = false.
Proof. exact noclone_spawned_loop_survives. Qed.
Example C06_spawned_loop_repaired :
  all_done (run true (sched_spawn_loop ++ [AStep 1; AStep 1; AStep 1; AStep 1]) (init prog_spawn_loop)) = true.
Proof. exact spawn_loop_now_stops. Qed.

(* ------------------------------------------------------------------ non-vacuity and the explorer *)
(* depth-3 nesting of spawns, a callback and a blocked thread: a reachable halted state exists, and the
   hypotheses of C06_progress hold in it *)
Definition nested3 : shape :=
  Seq (Spawn (Seq (Spawn (Seq (Spawn (Forever Tick)) (Callback CbMap 2 (Forever Tick)))) (Block BRecv)))
      (Deep 3 (Forever Tick)).
Definition sched3 : list action :=
  repeat (AStep 0) 3 ++ repeat (AStep 1) 3 ++ repeat (AStep 2) 4 ++ repeat (AStep 3) 2 ++ [ACancel; AFire].
Example C06_halted_satisfiable :
  let c := run true sched3 (init nested3) in
  cancelled c = true /\ flag c = true /\ forallb tshare (threads c) = true /\ length (threads c) = 4 /\
  all_done c = false /\
  all_done (run true (concat (repeat [AStep 0; AStep 1; AStep 2; AStep 3] 16)) c) = true.
Proof. vm_compute. repeat split. Qed.
Example C06_idclean_satisfiable : idclean (Seq (Spawn (Forever Tick)) (Seq (Callback CbTry 1 (Block BSleep)) (Forever (Block BRecv)))) = true.
Proof. reflexivity. Qed.
(* the explorer (all schedules of a concrete program, used by the correspondence): a spawned loop under the code
   as it is and before the repair *)
Example C06_explorer_now : let v := analyse true IMarked (Seq (Spawn (Forever Tick)) (Seq Mark (Forever Skip))) in
  v_complete v = true /\ v_stuck v = false /\ v_results v = [TErr ECtx].
Proof. vm_compute. auto. Qed.
Example C06_explorer_noclone : v_stuck (analyse false IMarked (Seq (Spawn (Forever Tick)) (Seq Mark (Forever Skip)))) = true.
Proof. vm_compute. auto. Qed.
