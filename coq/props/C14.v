(* C14 - imports stay inside the import root, run once, and keep their own globals.
   Property theorems only; each is closed by [exact] of a lemma proved in proofs/. *)
From Coq Require Import List Bool Arith NArith ZArith.
Require Import RV.model.Paths RV.proofs.PathsProofs RV.model.Parser RV.model.Importer.
Require Import RV.proofs.ImporterProofs RV.proofs.ImportRunProofs.
Import ListNotations.
Local Open Scope nat_scope.

Notation bnormal := (@normal ByteAlphabet).
Notation bnoslash := (@noslash ByteAlphabet).

(* ------------------------------------------------------------------ confinement *)

(* Whatever the spelling (identifier, quoted path VALUE of any bytes, dotted or quoted from-import, grouped,
   aliased): if lexer and parser accept the statement, every module name it can hand to the importer -
   the fallback parent name of a from-import included - consists of non-empty "/"-separated components
   that contain neither '.' nor '/'. *)
Theorem C14_names_wellformed : forall sp : spelling,
  accepted sp = true -> Forall name_ok (requested sp).
Proof. exact accepted_names_ok. Qed.

(* LocalImporter: the file read for such a name lies under the import root: the components of
   filepath.Join(root, name+ext) are the components of the root followed by at least one normal component
   (no "..", no ".", no empty component, no separator inside), for every root that is a clean base. *)
Theorem C14_confined : forall (sp : spelling) (root ext n : bstr),
  accepted sp = true -> @base_ok ByteAlphabet root -> bnoslash ext -> In n (requested sp) ->
  exists rest, comps (local_file root n ext) = comps root ++ rest /\ Forall bnormal rest /\ rest <> [].
Proof.
  intros sp root ext n Ha Hb He Hin.
  exact (local_file_under_base root n ext Hb
           (proj1 (Forall_forall _ _) (accepted_names_ok sp Ha) n Hin) He).
Qed.

(* ... and for any non-empty root string whatsoever (relative, with ".", ".." or doubled separators inside)
   whose cleaned form does not climb above its start. *)
Theorem C14_confined_any_root : forall (sp : spelling) (root ext n : bstr),
  accepted sp = true -> root <> [] -> Forall bnormal (clean_segs root) -> bnoslash ext -> In n (requested sp) ->
  comps (local_file root n ext) = clean_segs root ++ split (n ++ ext)
  /\ Forall bnormal (split (n ++ ext)) /\ split (n ++ ext) <> [].
Proof.
  intros sp root ext n Ha NE Hr He Hin.
  exact (local_file_confined root n ext NE Hr
           (proj1 (Forall_forall _ _) (accepted_names_ok sp Ha) n Hin) He).
Qed.

(* FSImporter: the name handed to fs.FS.Open is a clean, unrooted path of normal components (fs.ValidPath). *)
Theorem C14_confined_fs : forall (sp : spelling) (ext n : bstr),
  accepted sp = true -> bnoslash ext -> In n (requested sp) ->
  Forall bnormal (split (fs_file n ext)) /\ clean (fs_file n ext) = fs_file n ext
  /\ @is_rooted ByteAlphabet (fs_file n ext) = false.
Proof.
  intros sp ext n Ha He Hin.
  exact (fs_file_valid n ext (proj1 (Forall_forall _ _) (accepted_names_ok sp Ha) n Hin) He).
Qed.

(* The VM side: in every evaluation (any module tree, any main program, any fuel) whose import statements
   were accepted by the parser, every name for which the VM calls importer.Import is well-formed. *)
Theorem C14_requests_confined : forall fuel (T : tree) exts main o s,
  tree_accepted T = true -> forallb action_accepted main = true ->
  run_main fuel T exts main = (o, s) ->
  forall n r, In (EvReq n r) (trace s) -> name_ok n.
Proof. intros fuel T exts main o s HT Hm E. exact (run_main_reqs T exts HT fuel main o s Hm E). Qed.

(* The code an import of the name n is answered with is the source stored in the evaluation's OWN module tree under
   exactly the name n (byte for byte) and one of the configured extensions: no entry of another tree (another import
   root of the same process) and no entry whose name merely becomes equal to n under some normalisation (letter case,
   Unicode forms, path cleaning) can answer for n. *)
Theorem C14_source_exact_name : forall (T : tree) exts n ext src,
  find_source T exts n = Some (ext, src) -> In ext exts /\ In (n, ext, src) T.
Proof. exact find_source_exact. Qed.

(* ------------------------------------------------------------------ once *)

(* Every start of a module body seen in the trace ended by completing or by failing, and at most ONE start of
   a module completed - for every module tree (cyclic ones included), every main program, every fuel. *)
Theorem C14_once_accounting : forall fuel (T : tree) exts main o s n,
  run_main fuel T exts main = (o, s) ->
  tr_starts n (trace s) = get n (dones s) + get n (fails s)
  /\ tr_dones n (trace s) = get n (dones s)
  /\ get n (dones s) <= 1.
Proof. exact once_accounting. Qed.

(* The property, without any guard: a module body completes at most once, it is started at most once more than
   it failed, and when it never fails it is started at most once - under any number of imports, aliases and
   spellings, in any module graph: an import cycle is an error, a body in progress is never entered again. *)
Theorem C14_once : forall fuel (T : tree) exts main o s n,
  run_main fuel T exts main = (o, s) ->
  tr_starts n (trace s) <= 1 + get n (fails s) /\ tr_dones n (trace s) <= 1
  /\ (get n (fails s) = 0 -> tr_starts n (trace s) <= 1).
Proof. exact once. Qed.

(* All importers get the same module object: every successful import of n in the evaluation returned the
   same object. *)
Theorem C14_same_object : forall fuel (T : tree) exts main o s n id1 id2,
  run_main fuel T exts main = (o, s) ->
  In (n, id1) (results s) -> In (n, id2) (results s) -> id1 = id2.
Proof. exact same_object. Qed.

(* In an acyclic module graph (decidable: a rank certificate checked by tree_ranked) no import is ever rejected
   as a cycle. *)
Theorem C14_acyclic_no_cycle_error : forall fuel (T : tree) exts (rank : name -> nat) main o s n,
  tree_ranked rank T = true -> run_main fuel T exts main = (o, s) -> get n (cycles s) = 0.
Proof. intros fuel T exts rank main o s n HT E. exact (run_main_noreent T exts rank HT fuel main o s E n). Qed.

(* What a from-import binds for a name is the module parents/name as cached, or the attribute `name` of the
   cached parent module - whatever else is listed in the same statement. *)
Theorem C14_from_import_value : forall run (T : tree) exts c ps nm s v s',
  from_one run T exts c ps nm s = (inl (ROk v), s') ->
  (exists id a, v = VMod id (from_name ps nm) a /\ lookup (from_name ps nm) (cache s') = Some (id, a))
  \/ (exists id a, lookup (from_parent ps) (cache s') = Some (id, a) /\
                   walk (VMod id (from_parent ps) a) [nm] s' = ROk v).
Proof. exact from_one_value. Qed.

(* ------------------------------------------------------------------ own globals *)

(* Distinct modules have distinct globals arrays, none of them is the main program's array (0), and the
   module object handed to importers exposes exactly the array its code ran over. *)
Theorem C14_globals_distinct : forall fuel (T : tree) exts main o s,
  run_main fuel T exts main = (o, s) ->
  (forall n1 n2 a1 a2, lookup n1 (loaded s) = Some a1 -> lookup n2 (loaded s) = Some a2 -> n1 <> n2 -> a1 <> a2)
  /\ (forall n a, lookup n (loaded s) = Some a -> a <> 0)
  /\ (forall n id a, lookup n (cache s) = Some (id, a) -> lookup n (loaded s) = Some a).
Proof. exact globals_distinct. Qed.

(* Every assignment `x = v` executed anywhere in the evaluation wrote the array of the code object that
   executed it, so it can never land in the same-named variable of another module or of the importer. *)
Theorem C14_writes_own_array : forall fuel (T : tree) exts main o s a who m b,
  run_main fuel T exts main = (o, s) ->
  In (a, who) (wlog s) ->
  match who with None => a = 0 | Some m' => lookup m' (loaded s) = Some a end
  /\ (lookup m (loaded s) = Some b -> who <> Some m -> a <> b).
Proof.
  intros fuel T exts main o s a who m b E Hin. split.
  - exact (writes_own_array fuel T exts main o s a who E Hin).
  - intros Hm Hw. exact (write_not_foreign fuel T exts main o s a who m b E Hin Hm Hw).
Qed.

(* ------------------------------------------------------------------ the former witnesses, now rejected / correct *)

Definition nm_selfi : name := [115;101;108;102;105]%N.          (* "selfi" *)
Definition nm_inner : name := [105;110;110;101;114]%N.          (* "inner" *)
Definition nm_x0 : name := [120;48]%N.
(* selfi.risor:  x0 = 5 ; if <first start> { import selfi as inner }      main:  import selfi ; obs(selfi) *)
Definition selfi_tree : tree :=
  [(nm_selfi, ext_risor, MBody [ASet nm_x0 5%Z; AIfRun 1 [AImport nm_selfi (Some nm_inner)]])].
Definition selfi_main : list action := [AImport nm_selfi None; AObs (EPath [nm_selfi])].

(* The conditional self-import that used to succeed with the body run twice and two module objects is now an
   import-cycle error: the body started once, never completed, nothing was cached, the importer was asked once. *)
Theorem C14_cycle_rejected :
  let r := run_main 100 selfi_tree default_exts selfi_main in
  fst r = Err ECycle /\ tr_starts nm_selfi (trace (snd r)) = 1 /\ tr_dones nm_selfi (trace (snd r)) = 0 /\
  cache (snd r) = [] /\ get nm_selfi (cycles (snd r)) = 1 /\
  length (filter (fun e => match e with EvReq _ _ => true | _ => false end) (trace (snd r))) = 1.
Proof.
  cbv zeta. split; [vm_compute; reflexivity|]. split; [vm_compute; reflexivity|]. split; [vm_compute; reflexivity|].
  split; [vm_compute; reflexivity|]. split; vm_compute; reflexivity.
Qed.

(* ------------------------------------------------------------------ non-vacuity *)

Definition q (l : list N) : bstr := l.
Definition p_pkg_a : bstr := [112;107;103;47;97]%N.                 (* "pkg/a" *)
Definition p_escape : bstr := [46;46;47;101;115;99]%N.              (* "../esc" *)
Definition p_quoted : bstr := [34;113;34]%N.                        (* "\"q\"" : the quotes are part of the name *)
Definition root_ex : bstr := [47;115;114;118;47;109;111;100;115]%N. (* "/srv/mods" *)

Example C14_accepts_path : accepted (SpImportQuoted p_pkg_a None) = true.
Proof. vm_compute. reflexivity. Qed.
Example C14_accepts_quoted_quotes : accepted (SpImportQuoted p_quoted None) = true.
Proof. vm_compute. reflexivity. Qed.
Example C14_rejects_escape : accepted (SpImportQuoted p_escape None) = false
                             /\ accepted (SpFromQuoted p_escape [([97]%N, None)] false) = false.
Proof. vm_compute. split; reflexivity. Qed.
Example C14_file_example :
  local_file root_ex p_pkg_a ext_risor
  = [47;115;114;118;47;109;111;100;115;47;112;107;103;47;97;46;114;105;115;111;114]%N.   (* /srv/mods/pkg/a.risor *)
Proof. vm_compute. reflexivity. Qed.
(* "quota/Limits" and "quota/limits" in one tree: each name finds its own source *)
Definition p_Limits : bstr := [113;117;111;116;97;47;76;105;109;105;116;115]%N.
Definition p_limits : bstr := [113;117;111;116;97;47;108;105;109;105;116;115]%N.
Example C14_case_twins_distinct :
  let T := [(p_Limits, ext_risor, MBody [AFail]); (p_limits, ext_risor, MBad)] in
  find_source T default_exts p_Limits = Some (ext_risor, MBody [AFail]) /\
  find_source T default_exts p_limits = Some (ext_risor, MBad).
Proof. vm_compute. split; reflexivity. Qed.
Example C14_root_hyp_satisfiable : @base_ok ByteAlphabet root_ex /\ Forall bnoslash default_exts.
Proof.
  split; [|exact default_exts_noslash].
  split; [discriminate|]. vm_compute. repeat constructor; try discriminate.
Qed.

(* an acyclic tree with a failing body imported twice under try(): two starts, both failed (the "body
   completes" hypothesis of the third conjunct of C14_once is necessary), and a diamond a <- b, a <- main *)
Definition nm_a : name := [97]%N.
Definition nm_b : name := [98]%N.
Definition nm_bad : name := [98;97;100]%N.
Definition dag_tree : tree :=
  [(nm_a, ext_risor, MBody [ASet nm_x0 10%Z]);
   (nm_b, ext_rsr, MBody [ASet nm_x0 20%Z; AImport nm_a None]);
   (nm_bad, ext_risor, MBody [ASet nm_x0 1%Z; AFail])].
Definition dag_rank : list (name * nat) := [(nm_a, 0); (nm_b, 1); (nm_bad, 0)].
Definition dag_main : list action :=
  [AImport nm_b None; AImport nm_a None; AImport nm_a (Some nm_inner); AObs (ESame [nm_a] [nm_inner]);
   ATry [AImport nm_bad None]; ATry [AImport nm_bad None]].
Example C14_guard_satisfiable : tree_ranked (rank_of dag_rank) dag_tree = true.
Proof. vm_compute. reflexivity. Qed.
Example C14_dag_run :
  let s := snd (run_main 100 dag_tree default_exts dag_main) in
  fst (run_main 100 dag_tree default_exts dag_main) = OK /\
  tr_starts nm_a (trace s) = 1 /\ tr_starts nm_b (trace s) = 1 /\
  tr_starts nm_bad (trace s) = 2 /\ get nm_bad (fails s) = 2 /\
  existsb (fun e => match e with EvObs (OBool true) 0 => true | _ => false end) (trace s) = true.
Proof. vm_compute. repeat split; reflexivity. Qed.

(* ------------------------------------------------------------------ from-import with several names *)

Definition nm_pkg : name := [112;107;103]%N.
Definition nm_pkg_b : name := [112;107;103;47;98]%N.
Definition nm_x1 : name := [120;49]%N.
Definition nm_u : name := [117]%N.
Definition nm_v : name := [118]%N.
Definition nm_w : name := [119]%N.
(* pkg.risor: x1 = 5      pkg/b.risor: x0 = 50
   main: from pkg import b as w ; from pkg import (x1 as u, b as v) ; obs(w == v) ; obs(u) *)
Definition fb_tree : tree :=
  [(nm_pkg, ext_risor, MBody [ASet nm_x1 5%Z]); (nm_pkg_b, ext_risor, MBody [ASet nm_x0 50%Z])].
Definition fb_main : list action :=
  [AFrom [nm_pkg] [(nm_b, Some nm_w)]; AFrom [nm_pkg] [(nm_x1, Some nm_u); (nm_b, Some nm_v)];
   AObs (ESame [nm_w] [nm_v]); AObs (EPath [nm_u])].

(* The former witness of the wrong binding: the same name imported by a one-name and by a several-name statement
   (during which the body of pkg.risor runs) now denotes the same module object, and the symbol has its value. *)
Example C14_from_binding_example :
  let r := run_main 100 fb_tree default_exts fb_main in
  fst r = OK /\
  existsb (fun e => match e with EvObs (OBool true) 0 => true | _ => false end) (trace (snd r)) = true /\
  existsb (fun e => match e with EvObs (OInt 5) 0 => true | _ => false end) (trace (snd r)) = true.
Proof. cbv zeta. split; [vm_compute; reflexivity|]. split; vm_compute; reflexivity. Qed.
