(* C07 - runs on a reused VM are independent of earlier runs and their contexts.
   Property theorems only; each is closed by [exact] of a lemma proved in proofs/VmRunProofs.v.

   Model (model/VmRun.v): a VM (halt cell, running, startCount, sp, fp) inside an environment of contexts,
   halt cells and watcher goroutines.  A history is any list of invocations {RunCode, Run, Call} x program
   x context, interleaved with environment events (cancel(ctx_j), a watcher goroutine getting to run) at
   any position: between invocations, and inside an invocation wherever it is in a host builtin (Gate) or
   spinning (Spin).  Programs are arbitrary expression trees over constants, the host global, calls to any
   depth, runtime errors, host panics, gates and for{}.  [exec0 cfg g h] runs h on ONE new VM; every
   observation b records the surroundings, globals and VM state before the invocation and its outcome;
   [fresh_outcome cfg b] is the outcome of the same invocation, same globals, same surroundings, on a VM
   created for it.  cfg_current = the code as it is (per-run halt cell, clones share it, push stores before
   it increments, start() empties the operand stack); the other configurations are the code before each repair. *)
From Coq Require Import List Bool ZArith Arith Lia.
Require Import RV.model.VmRun RV.proofs.VmRunProofs.
Import ListNotations.

(* Every invocation of every history - after normal ends, errors at any depth, recovered panics, frame or
   stack exhaustion, cancellation, and under every placement of cancel(ctx_j) and of watcher firings,
   stale or not - gives exactly what a new VM gives; the one exception is a Run() that has to resume the main
   code at the instruction pointer an earlier RunCode left behind (outcome OWild, see C07_refuted_run_after_runcode). *)
Theorem C07_independent_or_wild : forall (g : Z) (h : list item) (b : obs),
  In b (exec0 cfg_current g h) ->
  o_out b = fresh_outcome cfg_current b \/
  (o_out b = OWild /\ iapi (o_inv b) = ARun /\ ipok (o_vm b) = false).
Proof. exact independent_current. Qed.

(* Guarded form; the guard is decidable on the observation: the invocation is not a Run, or no RunCode has
   moved the instruction pointer away from the main code. *)
Theorem C07_guarded : forall (g : Z) (h : list item) (b : obs),
  In b (exec0 cfg_current g h) -> (iapi (o_inv b) <> ARun \/ ipok (o_vm b) = true) ->
  o_out b = fresh_outcome cfg_current b.
Proof. exact guarded_current. Qed.

(* The two ways a VM is reused in practice satisfy the guard for every invocation:
   embedding (any sequence of RunCode and Call) ... *)
Theorem C07_independent_runcode_call : forall (g : Z) (h : list item) (b : obs),
  existsb inv_is_run h = false -> In b (exec0 cfg_current g h) -> o_out b = fresh_outcome cfg_current b.
Proof. exact independent_without_run. Qed.
(* ... and the REPL (any sequence of Run and Call). *)
Theorem C07_independent_run_call : forall (g : Z) (h : list item) (b : obs),
  existsb inv_is_runcode h = false -> In b (exec0 cfg_current g h) -> o_out b = fresh_outcome cfg_current b.
Proof. exact independent_without_runcode. Qed.

(* "Events that concern an earlier invocation never cut a later one short": the reference outcome itself does not
   depend on them - on a VM created for the invocation, deleting every event except cancel(own context) and the
   firing of its own watcher changes nothing.  With C07_guarded: the k-th outcome on the shared VM is a function of
   the invocation, the globals, and the events of its own context alone. *)
Theorem C07_foreign_events_irrelevant : forall (e : env) (g : Z) (i : inv),
  env_ok e ->
  fresh_of true e g i = fresh_of true e g (mkInv (iapi i) (ibody i) (ictx i) (own_gates e i)).
Proof. exact (foreign_events_irrelevant true). Qed.
(* every state a history reaches satisfies that hypothesis *)
Theorem C07_env_ok_reachable : forall (g : Z) (h : list item) (b : obs), In b (exec0 cfg_current g h) -> env_ok (o_env b).
Proof. intros g h b I. destruct (exec0_cfgd true g h b I) as (_ & _ & _ & _ & E & _). exact E. Qed.

(* The halt-flag invariant: the flag the current run polls is set only by a watcher of the current run's own
   context, after that context was cancelled - so no run is ever cut short with a nil error (OStale), and
   no invocation of a sequential history finds the VM "already running". *)
Theorem C07_no_silent_halt : forall (g : Z) (h : list item) (b : obs),
  In b (exec0 cfg_current g h) -> o_out b <> OStale /\ o_out b <> OBusy.
Proof. exact no_silent_halt. Qed.

(* stop(), resumeFrame and resetForNewCode have put (running, fp, sp) back before every invocation:
   not running, frame 0, stack pointer inside the array; a VM that never ran has an empty stack. *)
Theorem C07_state_restored : forall (g : Z) (h : list item) (b : obs),
  In b (exec0 cfg_current g h) ->
  running (o_vm b) = false /\ H (o_vm b) <= MaxStack /\ FP (o_vm b) = 0 /\
  (startCount (o_vm b) = 0 -> H (o_vm b) = 0).
Proof. exact restored_between_runs. Qed.

(* ------------------------------------------------------------------ the full statement is false of the code as it is *)
Definition rc (e : expr) (c : nat) := IInv (mkInv ARunCode e c []).
Definition rn (e : expr) (c : nat) := IInv (mkInv ARun e c []).
Definition cl (e : expr) (c : nat) := IInv (mkInv ACall e c []).
Definition some_differs (cfg : config) (h : list item) : bool := existsb (differs cfg) (exec0 cfg 0%Z h).

(* [differs] is exactly "the outcome on the shared VM is not the outcome on a new VM" *)
Lemma differs_spec cfg b : differs cfg b = true -> o_out b <> fresh_outcome cfg b.
Proof.
  unfold differs. intros D E. rewrite <- E in D. destruct (o_out b) as [[z|]| [] | | | |]; cbn in D; try discriminate.
  rewrite Z.eqb_refl in D. discriminate.
Qed.

Lemma some_differs_witness cfg h :
  some_differs cfg h = true -> exists b, In b (exec0 cfg 0%Z h) /\ differs cfg b = true.
Proof. intros E. apply existsb_exists. exact E. Qed.

(* Run, RunCode, Run: the second Run starts the main code at the instruction pointer of the RunCode's code *)
Definition h_run_runcode_run : list item := [rn (Lit 5) 0; rc (ListN 3 (Lit 6)) 0; rn (Lit 7) 0].
Theorem C07_refuted_run_after_runcode : exists h b, In b (exec0 cfg_current 0%Z h) /\ differs cfg_current b = true.
Proof. exists h_run_runcode_run. apply some_differs_witness. vm_compute. reflexivity. Qed.
Example C07_run_after_runcode_outcomes :
  map (fun b => (o_out b, fresh_outcome cfg_current b)) (exec0 cfg_current 0%Z h_run_runcode_run) =
  [(OVal (Some 5%Z), OVal (Some 5%Z)); (OVal (Some 6%Z), OVal (Some 6%Z)); (OWild, OVal (Some 7%Z))].
Proof. vm_compute. reflexivity. Qed.

(* ------------------------------------------------------------------ regression: the code before each repair *)
(* before c13bc4b (start() kept the operand stack): independent except that a Call or Run could exhaust the
   stack that earlier failed invocations had left operands on *)
Theorem C07_nodrop_independent_or_stack : forall (g : Z) (h : list item) (b : obs),
  In b (exec0 cfg_nodrop g h) ->
  o_out b = fresh_outcome cfg_nodrop b \/ (o_out b = OErr EStack /\ iapi (o_inv b) <> ARunCode) \/
  (o_out b = OWild /\ iapi (o_inv b) = ARun /\ ipok (o_vm b) = false).
Proof. exact independent_nodrop. Qed.
(* ... a RunCode that fails with 600 operands pending, then a Call that needs 600 slots *)
Definition h_residue : list item := [rc (ListN 600 Raise) 0; cl (ListN 600 (Lit 1)) 1].
Theorem C07_nodrop_refuted_residue : exists h b, In b (exec0 cfg_nodrop 0%Z h) /\ differs cfg_nodrop b = true.
Proof. exists h_residue. apply some_differs_witness. vm_compute. reflexivity. Qed.
Example C07_nodrop_residue_outcomes :
  map (fun b => (o_out b, fresh_outcome cfg_nodrop b)) (exec0 cfg_nodrop 0%Z h_residue) =
  [(OErr ERuntime, OErr ERuntime); (OErr EStack, OVal (Some 1%Z))].
Proof. vm_compute. reflexivity. Qed.
(* ... every failed Call that had an operand pending leaked one slot: 1024 small failed calls killed the VM *)
Definition h_leak : list item := repeat (cl (Bin (Lit 1) Raise) 0) 1024 ++ [cl (Lit 7) 0].
Theorem C07_nodrop_refuted_leak : exists h,
  Forall (fun it => match it with IInv i => hmax (ibody i) <= 2 | IEnv _ => True end) h /\
  exists b, In b (exec0 cfg_nodrop 0%Z h) /\ differs cfg_nodrop b = true.
Proof.
  exists h_leak. split.
  - unfold h_leak. apply Forall_app. split; [apply Forall_forall; intros x X; apply repeat_spec in X; subst; cbn; lia|].
    repeat constructor.
  - apply some_differs_witness. vm_compute. reflexivity.
Qed.
Example C07_residue_leak_repaired : some_differs cfg_current h_residue = false /\ some_differs cfg_current h_leak = false.
Proof. split; vm_compute; reflexivity. Qed.

(* pinned tree (one halt field per VM, written by every watcher): run 1 ends, its context is cancelled while
   run 2 is inside a host builtin, watcher 1 fires: run 2 is cut short and returns a nil error *)
Definition h_stale : list item :=
  [rc (Lit 5) 0; IInv (mkInv ARunCode (Seq Gate (Lit 7)) 1 [[Cancel 0; Fire 0]])].
Theorem C07_pinned_refuted_stale_watcher : exists h b, In b (exec0 cfg_pinned 0%Z h) /\ differs cfg_pinned b = true.
Proof. exists h_stale. apply some_differs_witness. vm_compute. reflexivity. Qed.
Example C07_pinned_stale_outcomes :
  map (fun b => (o_out b, fresh_outcome cfg_pinned b)) (exec0 cfg_pinned 0%Z h_stale) =
  [(OVal (Some 5%Z), OVal (Some 5%Z)); (OStale, OVal (Some 7%Z))].
Proof. vm_compute. reflexivity. Qed.
Example C07_stale_watcher_repaired : some_differs cfg_current h_stale = false.
Proof. vm_compute. reflexivity. Qed.
(* the pinned tree also let resetForNewCode erase a cancellation that arrived before the reset: the run's own
   context is cancelled and its watcher fires before RunCode starts; the second RunCode on the VM spins forever *)
Definition h_erased : list item :=
  [rc (Lit 5) 0; IEnv (Cancel 1); IInv (mkInv ARunCode Spin 1 [[Fire 1]; []; []])].

(* before 7c03eb9 (push incremented sp first): after one stack exhaustion inside a call every later Call fails *)
Definition h_overflow : list item := [rc (Lit 5) 0; cl (fact 5) 1; cl (fact 1100) 2; cl (fact 5) 3].
Theorem C07_nopush_refuted_overflow : exists h b, In b (exec0 cfg_nopush 0%Z h) /\ differs cfg_nopush b = true.
Proof. exists h_overflow. apply some_differs_witness. vm_compute. reflexivity. Qed.
Example C07_nopush_overflow_last :
  map (fun b => is_err (o_out b)) (exec0 cfg_nopush 0%Z h_overflow) = [false; false; true; true] /\
  map (fun b => is_err (fresh_outcome cfg_nopush b)) (exec0 cfg_nopush 0%Z h_overflow) = [false; false; true; false].
Proof. split; vm_compute; reflexivity. Qed.
Example C07_overflow_repaired : some_differs cfg_current h_overflow = false.
Proof. vm_compute. reflexivity. Qed.

(* ------------------------------------------------------------------ non-vacuity *)
(* a history with a cancelled spin, a stale cancellation inside a later run, a recovered panic at depth 3 with
   operands pending, frame exhaustion and stack exhaustion: all seven invocations are observed *)
Definition h_mixed : list item :=
  [ IInv (mkInv ARunCode (Seq Gate Spin) 0 [[]; [Cancel 0]; [Fire 0]]);
    IInv (mkInv ARunCode (Seq Gate (Bin GetG (Lit 7))) 1 [[Cancel 0; Fire 0]]);
    cl (at_depth 3 (ListN 4 HostPanic)) 2;
    IEnv (Cancel 1); IEnv (Fire 1);
    cl (deep 1100) 3;
    cl (fact 1100) 3;
    rc (Seq (AddG 2) GetG) 4;
    IInv (mkInv ACall (Seq Gate (Lit 3)) 1 [[Fire 6]]) ].
Example C07_mixed_outcomes :
  map o_out (exec0 cfg_current 0%Z h_mixed) =
  [OErr ECtx; OVal (Some 7%Z); OErr EHost; OErr EFrames; OErr EStack; OVal (Some 2%Z); OErr ECtx].
Proof. vm_compute. reflexivity. Qed.
Example C07_mixed_guard : existsb inv_is_run h_mixed = false.
Proof. reflexivity. Qed.
Definition h_repl : list item :=
  [ rn (Seq (AddG 2) GetG) 0; rn (at_depth 2 Raise) 0; cl (Lit 4) 1; IEnv (Cancel 0); IEnv (Fire 0); IEnv (Fire 1);
    IInv (mkInv ARun (Seq Gate GetG) 2 [[Fire 2]]) ].
Example C07_repl_outcomes :
  existsb inv_is_runcode h_repl = false /\
  map o_out (exec0 cfg_current 0%Z h_repl) = [OVal (Some 2%Z); OErr ERuntime; OVal (Some 4%Z); OVal (Some 2%Z)].
Proof. split; vm_compute; reflexivity. Qed.
