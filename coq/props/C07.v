(* C07 - runs on a reused VM are independent of earlier runs and their contexts.
   Property theorems only; each is closed by [exact] of a lemma proved in proofs/VmRunProofs.v.

   Model (model/VmRun.v): a VM (halt cell, running, startCount, sp, fp) inside an environment of contexts,
   halt cells and watcher goroutines.  A history is any list of invocations {RunCode, Run, Call} x program
   x context, interleaved with environment events (cancel(ctx_j), a watcher goroutine getting to run) at
   any position: between invocations, and inside an invocation wherever it is in a host builtin (Gate) or
   spinning (Spin).  Programs are arbitrary expression trees over constants, the host global, calls to any
   depth, runtime errors, host panics, gates and for{}.  [exec0 cfg g h] runs h on ONE new VM; every
   observation b records the surroundings, globals and VM state before the invocation and its outcome;
   [fresh_outcome cfg b] is the outcome of the same invocation, same globals, same surroundings, on a VM
   created for it.  cfg_current = the code as it is (per-run halt cell, clones share it, push stores before
   it increments, start() empties the operand stack); the other configurations are the code before each repair. *)
From Coq Require Import List Bool ZArith Arith Lia.
Require Import RV.model.VmRun RV.proofs.VmRunProofs.
Import ListNotations.

(* Every invocation of every history of RunCode, Run and Call - after normal ends, errors at any depth, recovered
   panics, frame or stack exhaustion, cancellation, failed imports, and under every placement of cancel(ctx_j),
   of watcher firings (stale or not) and of refused concurrent invocations - gives exactly what a new VM gives. *)
Theorem C07_independent : forall (g : Z) (h : list item) (b : obs),
  In b (exec0 cfg_current g h) -> o_out b = fresh_outcome cfg_current b.
Proof. exact independent_current. Qed.

(* "Events that concern an earlier invocation never cut a later one short": the reference outcome itself does not
   depend on them - on a VM created for the invocation, deleting every event except cancel(own context) and the
   firing of its own watcher changes nothing.  With C07_independent: the k-th outcome on the shared VM is a function of
   the invocation, the globals, and the events of its own context alone. *)
Theorem C07_foreign_events_irrelevant : forall (e : env) (g : Z) (i : inv),
  env_ok e ->
  fresh_of true e g i = fresh_of true e g (mkInv (iapi i) (ibody i) (ictx i) (own_gates e i) (iimport i)).
Proof. exact (foreign_events_irrelevant true). Qed.
(* every state a history reaches satisfies that hypothesis *)
Theorem C07_env_ok_reachable : forall (g : Z) (h : list item) (b : obs), In b (exec0 cfg_current g h) -> env_ok (o_env b).
Proof. intros g h b I. destruct (exec0_cfgd true g h b I) as (_ & _ & _ & _ & _ & E). exact E. Qed.

(* The halt-flag invariant: the flag the current run polls is set only by a watcher of the current run's own
   context, after that context was cancelled - so no run is ever cut short with a nil error (OStale), no
   invocation of a sequential history finds the VM "already running", and no Run starts at a foreign position. *)
Theorem C07_no_silent_halt : forall (g : Z) (h : list item) (b : obs),
  In b (exec0 cfg_current g h) -> o_out b <> OStale /\ o_out b <> OBusy /\ o_out b <> OWild.
Proof. exact no_silent_halt. Qed.

(* stop(), resumeFrame and resetForNewCode have put (running, fp, sp) back before every invocation:
   not running, frame 0, stack pointer inside the array, the module globals importable; a VM that never ran has
   an empty stack. *)
Theorem C07_state_restored : forall (g : Z) (h : list item) (b : obs),
  In b (exec0 cfg_current g h) ->
  running (o_vm b) = false /\ H (o_vm b) <= MaxStack /\ FP (o_vm b) = 0 /\
  (startCount (o_vm b) = 0 -> H (o_vm b) = 0) /\ mods (o_vm b) = true.
Proof. exact restored_between_runs. Qed.

(* ------------------------------------------------------------------ regression: the code without each repair *)
Definition rc (e : expr) (c : nat) := IInv (mkInv ARunCode e c [] false).
Definition rn (e : expr) (c : nat) := IInv (mkInv ARun e c [] false).
Definition cl (e : expr) (c : nat) := IInv (mkInv ACall e c [] false).
Definition rci (e : expr) (c : nat) := IInv (mkInv ARunCode e c [] true).   (* import m; e *)
Definition some_differs (cfg : config) (h : list item) : bool := existsb (differs cfg) (exec0 cfg 0%Z h).

(* [differs] is exactly "the outcome on the shared VM is not the outcome on a new VM" *)
Lemma differs_spec cfg b : differs cfg b = true -> o_out b <> fresh_outcome cfg b.
Proof.
  unfold differs. intros D E. rewrite <- E in D. destruct (o_out b) as [[z|]| [] | | | |]; cbn in D; try discriminate.
  rewrite Z.eqb_refl in D. discriminate.
Qed.

Lemma some_differs_witness cfg h :
  some_differs cfg h = true -> exists b, In b (exec0 cfg 0%Z h) /\ differs cfg b = true.
Proof. intros E. apply existsb_exists. exact E. Qed.

(* without 02032cf (Run resumed the main code at vm.ip): Run, RunCode, Run - the second Run starts the main code at
   the instruction pointer of the RunCode's code *)
Definition h_run_runcode_run : list item := [rn (Lit 5) 0; rc (ListN 3 (Lit 6)) 0; rn (Lit 7) 0].
Theorem C07_norunip_refuted_run_after_runcode : exists h b, In b (exec0 cfg_norunip 0%Z h) /\ differs cfg_norunip b = true.
Proof. exists h_run_runcode_run. apply some_differs_witness. vm_compute. reflexivity. Qed.
Example C07_norunip_outcomes :
  map (fun b => (o_out b, fresh_outcome cfg_norunip b)) (exec0 cfg_norunip 0%Z h_run_runcode_run) =
  [(OVal (Some 5%Z), OVal (Some 5%Z)); (OVal (Some 6%Z), OVal (Some 6%Z)); (OWild, OVal (Some 7%Z))].
Proof. vm_compute. reflexivity. Qed.
Example C07_run_after_runcode_repaired : some_differs cfg_current h_run_runcode_run = false.
Proof. vm_compute. reflexivity. Qed.

(* without 0029df9 (resetForNewCode emptied vm.modules): `import m` of a module global works in the first RunCode
   on a VM and fails with "imports are disabled" in every later one *)
Definition h_import_twice : list item := [rci (Lit 5) 0; rci (Lit 6) 0; IInv (mkInv ACall (Lit 7) 0 [] true)].
Theorem C07_nomods_refuted_import : exists h b, In b (exec0 cfg_nomods 0%Z h) /\ differs cfg_nomods b = true.
Proof. exists h_import_twice. apply some_differs_witness. vm_compute. reflexivity. Qed.
Example C07_nomods_outcomes :
  map (fun b => (o_out b, fresh_outcome cfg_nomods b)) (exec0 cfg_nomods 0%Z h_import_twice) =
  [(OVal (Some 5%Z), OVal (Some 5%Z)); (OErr EImport, OVal (Some 6%Z)); (OErr EImport, OVal (Some 7%Z))].
Proof. vm_compute. reflexivity. Qed.
Example C07_import_repaired : some_differs cfg_current h_import_twice = false.
Proof. vm_compute. reflexivity. Qed.

(* without c13bc4b (start() kept the operand stack): independent except that a Call or Run could exhaust the
   stack that earlier failed invocations had left operands on *)
Theorem C07_nodrop_independent_or_stack : forall (g : Z) (h : list item) (b : obs),
  In b (exec0 cfg_nodrop g h) ->
  o_out b = fresh_outcome cfg_nodrop b \/ (o_out b = OErr EStack /\ iapi (o_inv b) <> ARunCode).
Proof. exact independent_nodrop. Qed.
(* ... a RunCode that fails with 600 operands pending, then a Call that needs 600 slots *)
Definition h_residue : list item := [rc (ListN 600 Raise) 0; cl (ListN 600 (Lit 1)) 1].
Theorem C07_nodrop_refuted_residue : exists h b, In b (exec0 cfg_nodrop 0%Z h) /\ differs cfg_nodrop b = true.
Proof. exists h_residue. apply some_differs_witness. vm_compute. reflexivity. Qed.
Example C07_nodrop_residue_outcomes :
  map (fun b => (o_out b, fresh_outcome cfg_nodrop b)) (exec0 cfg_nodrop 0%Z h_residue) =
  [(OErr ERuntime, OErr ERuntime); (OErr EStack, OVal (Some 1%Z))].
Proof. vm_compute. reflexivity. Qed.
(* ... every failed Call that had an operand pending leaked one slot: 1024 small failed calls killed the VM *)
Definition h_leak : list item := repeat (cl (Bin (Lit 1) Raise) 0) 1024 ++ [cl (Lit 7) 0].
Theorem C07_nodrop_refuted_leak : exists h,
  Forall (fun it => match it with IInv i => hmax (ibody i) <= 2 | IEnv _ => True end) h /\
  exists b, In b (exec0 cfg_nodrop 0%Z h) /\ differs cfg_nodrop b = true.
Proof.
  exists h_leak. split.
  - unfold h_leak. apply Forall_app. split; [apply Forall_forall; intros x X; apply repeat_spec in X; subst; cbn; lia|].
    repeat constructor.
  - apply some_differs_witness. vm_compute. reflexivity.
Qed.
Example C07_residue_leak_repaired : some_differs cfg_current h_residue = false /\ some_differs cfg_current h_leak = false.
Proof. split; vm_compute; reflexivity. Qed.

(* pinned tree (one halt field per VM, written by every watcher): run 1 ends, its context is cancelled while
   run 2 is inside a host builtin, watcher 1 fires: run 2 is cut short and returns a nil error *)
Definition h_stale : list item :=
  [rc (Lit 5) 0; IInv (mkInv ARunCode (Seq Gate (Lit 7)) 1 [[Cancel 0; Fire 0]] false)].
Theorem C07_pinned_refuted_stale_watcher : exists h b, In b (exec0 cfg_pinned 0%Z h) /\ differs cfg_pinned b = true.
Proof. exists h_stale. apply some_differs_witness. vm_compute. reflexivity. Qed.
Example C07_pinned_stale_outcomes :
  map (fun b => (o_out b, fresh_outcome cfg_pinned b)) (exec0 cfg_pinned 0%Z h_stale) =
  [(OVal (Some 5%Z), OVal (Some 5%Z)); (OStale, OVal (Some 7%Z))].
Proof. vm_compute. reflexivity. Qed.
Example C07_stale_watcher_repaired : some_differs cfg_current h_stale = false.
Proof. vm_compute. reflexivity. Qed.
(* the pinned tree also let resetForNewCode erase a cancellation that arrived before the reset: the run's own
   context is cancelled and its watcher fires before RunCode starts; the second RunCode on the VM spins forever *)
Definition h_erased : list item :=
  [rc (Lit 5) 0; IEnv (Cancel 1); IInv (mkInv ARunCode Spin 1 [[Fire 1]; []; []] false)].

(* without 7c03eb9 (push incremented sp first): after one stack exhaustion inside a call every later Call fails *)
Definition h_overflow : list item := [rc (Lit 5) 0; cl (fact 5) 1; cl (fact 1100) 2; cl (fact 5) 3].
Theorem C07_nopush_refuted_overflow : exists h b, In b (exec0 cfg_nopush 0%Z h) /\ differs cfg_nopush b = true.
Proof. exists h_overflow. apply some_differs_witness. vm_compute. reflexivity. Qed.
Example C07_nopush_overflow_last :
  map (fun b => is_err (o_out b)) (exec0 cfg_nopush 0%Z h_overflow) = [false; false; true; true] /\
  map (fun b => is_err (fresh_outcome cfg_nopush b)) (exec0 cfg_nopush 0%Z h_overflow) = [false; false; true; false].
Proof. split; vm_compute; reflexivity. Qed.
Example C07_overflow_repaired : some_differs cfg_current h_overflow = false.
Proof. vm_compute. reflexivity. Qed.

(* ------------------------------------------------------------------ non-vacuity *)
(* a history with a cancelled spin, a stale cancellation inside a later run, a recovered panic at depth 3 with
   operands pending, frame exhaustion and stack exhaustion: all seven invocations are observed *)
Definition h_mixed : list item :=
  [ IInv (mkInv ARunCode (Seq Gate Spin) 0 [[]; [Cancel 0]; [Fire 0]] false);
    IInv (mkInv ARunCode (Seq Gate (Bin GetG (Lit 7))) 1 [[Cancel 0; Fire 0; Reenter]] true);
    cl (at_depth 3 (ListN 4 HostPanic)) 2;
    IEnv (Cancel 1); IEnv (Fire 1);
    cl (deep 1100) 3;
    cl (fact 1100) 3;
    rc (Seq (AddG 2) GetG) 4;
    IInv (mkInv ACall (Seq Gate (Lit 3)) 1 [[Fire 6]] true) ].
Example C07_mixed_outcomes :
  map o_out (exec0 cfg_current 0%Z h_mixed) =
  [OErr ECtx; OVal (Some 7%Z); OErr EHost; OErr EFrames; OErr EStack; OVal (Some 2%Z); OErr ECtx].
Proof. vm_compute. reflexivity. Qed.
(* all three entry points mixed on one VM, Run after RunCode included *)
Definition h_all : list item :=
  [ rn (Seq (AddG 2) GetG) 0; rci (at_depth 2 Raise) 0; rn (Lit 9) 0; cl (Lit 4) 1; IEnv (Cancel 0); IEnv (Fire 0);
    IEnv (Fire 1); IEnv (Fire 2); rci GetG 3; IInv (mkInv ARun (Seq Gate GetG) 2 [[Fire 5]] true) ].
Example C07_all_outcomes :
  map o_out (exec0 cfg_current 0%Z h_all) =
  [OVal (Some 2%Z); OErr ERuntime; OVal (Some 9%Z); OVal (Some 4%Z); OVal (Some 2%Z); OVal (Some 2%Z)].
Proof. vm_compute. reflexivity. Qed.
