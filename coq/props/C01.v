(* C01 - execution of a program matches its source-level meaning.
   Property theorems only; each is closed by [exact] of a lemma proved in proofs/. *)
From Coq Require Import List Bool Arith String.
Require Import RV.model.Pratt RV.proofs.PrattProofs RV.model.TokenNames RV.model.Parser RV.gen.GenPrecedence.
Import ListNotations.
Local Open Scope string_scope.
Local Open Scope nat_scope.

(* ---- front end: the tables ---- *)

(* The precedence function of the parser model is the table of parser/precedence.go as it is NOW
   (regenerated on every check): every listed token has the listed level, every other token LOWEST. *)
Theorem C01_gen_precedence_eq : precedence_table_ok gen_precedences = true.
Proof. vm_compute. reflexivity. Qed.

Definition level (nm : string) : nat :=
  match find (fun e => String.eqb (fst e) nm) gen_levels with Some e => snd e | None => 0 end.
Definition gen_LOWEST := level "LOWEST".
Definition gen_PREFIX := level "PREFIX".
Definition gen_bp (o : nat) : nat := nth o (map (fun e => snd e) gen_binops) gen_PREFIX.
Definition gen_minus : nat :=
  (fix idx (l : list (string * string * nat)) (i : nat) : nat :=
     match l with
     | [] => i
     | (nm, _, _) :: r => if String.eqb nm "MINUS" then i else idx r (S i)
     end) gen_binops 0.

Lemma gen_bp_facts : forall o, gen_LOWEST < gen_bp o /\ gen_bp o <= gen_PREFIX.
Proof.
  assert (H : forallb (fun e => (gen_LOWEST <? snd e) && (snd e <=? gen_PREFIX)) gen_binops = true /\
              gen_LOWEST < gen_PREFIX) by (split; [vm_compute; reflexivity|vm_compute; repeat constructor]).
  destruct H as (H & Hd). intros o. unfold gen_bp.
  rewrite forallb_forall in H.
  destruct (nth_in_or_default o (map (fun e => snd e) gen_binops) gen_PREFIX) as [Hin|Hd'].
  - apply in_map_iff in Hin. destruct Hin as (e & He & Hin). rewrite <- He.
    specialize (H e Hin). apply andb_true_iff in H. destruct H as (H1 & H2).
    apply Nat.ltb_lt in H1. apply Nat.leb_le in H2. split; assumption.
  - rewrite Hd'. split; [assumption|apply le_n].
Qed.

(* ---- front end: parse (print e) = e ---- *)

(* For every expression tree over integer literals, all binary operators registered with
   parseInfixExpr (with the precedences the source has now), the prefix operators - and !, printed
   with parentheses only where the grammar needs them, the Pratt machine rebuilds exactly that
   tree: precedence and (left) associativity are as the table says.  No bound on size or depth. *)
Theorem C01_front_parse_print : forall e p rest,
  (match rest with TOp o :: _ => gen_bp o <= p | _ => True end) ->
  exists f1, forall f, f1 <= f ->
    Pratt.parse gen_bp gen_minus gen_LOWEST gen_PREFIX f p
                (Pratt.flat gen_bp gen_minus gen_PREFIX p e ++ rest) = Some (e, rest).
Proof.
  intros e p rest H.
  exact (parse_print gen_bp gen_minus gen_LOWEST gen_PREFIX
                     (fun o => proj1 (gen_bp_facts o)) (fun o => proj2 (gen_bp_facts o)) e p rest H).
Qed.

(* Non-vacuity and a reading of the table: with the real table, 1 + 2 * 3 parses as 1 + (2 * 3),
   1 - 2 - 3 as (1 - 2) - 3, -2 ** 2 as (-2) ** 2 (prefix binds tighter than every binary operator). *)
Definition opi (nm : string) : nat :=
  (fix idx (l : list (string * string * nat)) (i : nat) : nat :=
     match l with [] => i | (n, _, _) :: r => if String.eqb n nm then i else idx r (S i) end) gen_binops 0.
Example C01_precedence_example :
  Pratt.parse gen_bp gen_minus gen_LOWEST gen_PREFIX 20 gen_LOWEST
    [TInt 1; TOp (opi "PLUS"); TInt 2; TOp (opi "ASTERISK"); TInt 3]
  = Some (Infix (opi "PLUS") (Int 1) (Infix (opi "ASTERISK") (Int 2) (Int 3)), []).
Proof. vm_compute. reflexivity. Qed.
Example C01_left_assoc_example :
  Pratt.parse gen_bp gen_minus gen_LOWEST gen_PREFIX 20 gen_LOWEST
    [TInt 1; TOp (opi "MINUS"); TInt 2; TOp (opi "MINUS"); TInt 3]
  = Some (Infix (opi "MINUS") (Infix (opi "MINUS") (Int 1) (Int 2)) (Int 3), []).
Proof. vm_compute. reflexivity. Qed.

(* ---- back end, stage A: the compiler model that is compared with the real compiler on every run emits, for
   every scalar expression (integer / boolean / nil literals, prefix - and !, arithmetic and comparison
   operators, short-circuit && and ||, the conditional; any nesting), exactly the code of the pure function
   [cexp] - jump distances included -, appends exactly its constants and changes nothing else of its state. ---- *)
From Coq Require Import NArith ZArith.
Require Import RV.model.Syntax RV.model.Compiler RV.model.ScalarFrag RV.proofs.BackendProofs.
Local Open Scope nat_scope.
Theorem C01_back_compile_scalar : forall e f st w r,
  st_stack st = w :: r -> height e <= f ->
  compile f (embed e) st =
  inr (I (fst (cexp (List.length (w_consts w)) e)), add_consts st (snd (cexp (List.length (w_consts w)) e))).
Proof. exact compile_scalar. Qed.

(* Non-vacuity: 1 + 2 * 3 < 10 && !nil on the initial compiler state *)
Example C01_back_compile_example :
  fst (cexp 0 (SLand (SBin CLt (SBin BAdd (SInt 1) (SBin BMul (SInt 2) (SInt 3))) (SInt 10)) (SNot SNil))) =
  [opLoadConst; 0; opLoadConst; 1; opLoadConst; 2; opBinaryOp; bMultiply; opBinaryOp; bAdd; opLoadConst; 3;
   opCompareOp; cLessThan; opCopy; 0; opPopJumpForwardIfFalse; 7; opNil; opUnaryNot; opBinaryOp; bAnd; opNop]%N.
Proof. vm_compute. reflexivity. Qed.

(* ... and on the same fragment the reference semantics that judges the implementation on every run (Sem.eval)
   computes exactly the pure function [sev] - value or error class -, for every environment and state, which
   it leaves untouched. *)
Require Import RV.model.Sem RV.proofs.SemScalarProofs.
Theorem C01_back_sem_scalar : forall x f e s, (ScalarFrag.height x <= f)%nat ->
  Sem.eval f e s (ScalarFrag.embed x) = (lift (ScalarFrag.sev x), e, s).
Proof. exact sem_scalar. Qed.

(* ... and the VM model that is compared with the real VM on every run, running the code of [cexp] inside ANY code
   object, at ANY position, under ANY stack with room for it, pushes exactly that value - or stops with exactly
   that error class - and leaves the machine state untouched; k is the number of instructions executed.
   Together (C01_back_compile_scalar, C01_back_sem_scalar, C01_back_vm_scalar): on the scalar fragment,
   compiling and executing a program is the same as evaluating its source, for every expression of any size. *)
Require Import RV.model.VM RV.proofs.VMScalarProofs.
Theorem C01_back_vm_scalar :
  forall tabs c below frames free defers is_main s e base pre post st,
  code_instr c = (pre ++ fst (cexp base e) ++ post)%list ->
  (forall i k, nth_error (snd (cexp base e)) i = Some k -> nth (base + i) (code_consts c) (KInt 0) = k) ->
  (below + List.length st + need e <= MAXSTACK)%nat ->
  exists k, forall f,
    exec tabs (k + f) c (List.length pre) st below frames free defers is_main s =
    match sev e with
    | inl v => exec tabs f c (List.length pre + List.length (fst (cexp base e))) (VMScalarProofs.inj v :: st)%list
                    below frames free defers is_main s
    | inr x => (RErr (cls x) s, defers)
    end.
Proof. exact vm_scalar. Qed.

(* Assembled: for every whole program that consists of one scalar expression whose evaluation fits the VM's 1024
   operand slots, the compiler model accepts it, and running the compiled code on the VM model from the initial machine
   state gives the value - or the error class - that the reference semantics assigns to the source.  These are the
   very functions (compile_program, VM.run, Sem.run) that are extracted and compared with the real compiler and VM on
   every run.  The bound is real: deeper operand nesting overflows the implementation's stack as well. *)
Require Import RV.proofs.EndToEndScalar.
Theorem C01_scalar_programs : forall e, (need e <= MAXSTACK)%nat ->
  exists c tabs, compile_program (height e) nil (embed e :: nil) = inr (c, tabs) /\
  forall ng bs, exists k, forall f fs, (height e <= fs)%nat ->
    agree (fst (Sem.run fs (embed e :: nil))) (VM.run (k + S f) c tabs ng bs).
Proof. exact scalar_programs_end_to_end. Qed.

(* Non-vacuity: (7 - 10) * 2 < 0 ? 1 / 0 : 5 compiles, and both sides stop with the division error *)
Example C01_scalar_program_example :
  let e := STern (SBin CLt (SBin BMul (SBin BSub (SInt 7) (SInt 10)) (SInt 2)) (SInt 0)) (SBin BDiv (SInt 1) (SInt 0)) (SInt 5) in
  (need e <= MAXSTACK)%nat /\
  match compile_program 10 nil (embed e :: nil) with
  | inr (c, tabs) => match VM.run 100 c tabs 0 nil with RErr XDiv0 _ => True | _ => False end
  | inl _ => False
  end /\ fst (Sem.run 10 (embed e :: nil)) = Sem.OErr Sem.XDiv0.
Proof. cbv zeta. split; [apply PeanoNat.Nat.leb_le; vm_compute; reflexivity|]. split; [vm_compute; exact Logic.I|vm_compute; reflexivity]. Qed.
