(* C01 - execution of a program matches its source-level meaning.
   Property theorems only; each is closed by [exact] of a lemma proved in proofs/. *)
From Coq Require Import List Bool Arith String.
Require Import RV.model.Pratt RV.proofs.PrattProofs RV.model.TokenNames RV.model.Parser RV.gen.GenPrecedence.
Import ListNotations.
Local Open Scope string_scope.
Local Open Scope nat_scope.

(* ---- front end: the tables ---- *)

(* The precedence function of the parser model is the table of parser/precedence.go as it is NOW
   (regenerated on every check): every listed token has the listed level, every other token LOWEST. *)
Theorem C01_gen_precedence_eq : precedence_table_ok gen_precedences = true.
Proof. vm_compute. reflexivity. Qed.

Definition level (nm : string) : nat :=
  match find (fun e => String.eqb (fst e) nm) gen_levels with Some e => snd e | None => 0 end.
Definition gen_LOWEST := level "LOWEST".
Definition gen_PREFIX := level "PREFIX".
Definition gen_bp (o : nat) : nat := nth o (map (fun e => snd e) gen_binops) gen_PREFIX.
Definition gen_minus : nat :=
  (fix idx (l : list (string * string * nat)) (i : nat) : nat :=
     match l with
     | [] => i
     | (nm, _, _) :: r => if String.eqb nm "MINUS" then i else idx r (S i)
     end) gen_binops 0.

Lemma gen_bp_facts : forall o, gen_LOWEST < gen_bp o /\ gen_bp o <= gen_PREFIX.
Proof.
  assert (H : forallb (fun e => (gen_LOWEST <? snd e) && (snd e <=? gen_PREFIX)) gen_binops = true /\
              gen_LOWEST < gen_PREFIX) by (split; [vm_compute; reflexivity|vm_compute; repeat constructor]).
  destruct H as (H & Hd). intros o. unfold gen_bp.
  rewrite forallb_forall in H.
  destruct (nth_in_or_default o (map (fun e => snd e) gen_binops) gen_PREFIX) as [Hin|Hd'].
  - apply in_map_iff in Hin. destruct Hin as (e & He & Hin). rewrite <- He.
    specialize (H e Hin). apply andb_true_iff in H. destruct H as (H1 & H2).
    apply Nat.ltb_lt in H1. apply Nat.leb_le in H2. split; assumption.
  - rewrite Hd'. split; [assumption|apply le_n].
Qed.

(* ---- front end: parse (print e) = e ---- *)

(* For every expression tree over integer literals, all binary operators registered with
   parseInfixExpr (with the precedences the source has now), the prefix operators - and !, printed
   with parentheses only where the grammar needs them, the Pratt machine rebuilds exactly that
   tree: precedence and (left) associativity are as the table says.  No bound on size or depth. *)
Theorem C01_front_parse_print : forall e p rest,
  (match rest with TOp o :: _ => gen_bp o <= p | _ => True end) ->
  exists f1, forall f, f1 <= f ->
    Pratt.parse gen_bp gen_minus gen_LOWEST gen_PREFIX f p
                (Pratt.flat gen_bp gen_minus gen_PREFIX p e ++ rest) = Some (e, rest).
Proof.
  intros e p rest H.
  exact (parse_print gen_bp gen_minus gen_LOWEST gen_PREFIX
                     (fun o => proj1 (gen_bp_facts o)) (fun o => proj2 (gen_bp_facts o)) e p rest H).
Qed.

(* Non-vacuity and a reading of the table: with the real table, 1 + 2 * 3 parses as 1 + (2 * 3),
   1 - 2 - 3 as (1 - 2) - 3, -2 ** 2 as (-2) ** 2 (prefix binds tighter than every binary operator). *)
Definition opi (nm : string) : nat :=
  (fix idx (l : list (string * string * nat)) (i : nat) : nat :=
     match l with [] => i | (n, _, _) :: r => if String.eqb n nm then i else idx r (S i) end) gen_binops 0.
Example C01_precedence_example :
  Pratt.parse gen_bp gen_minus gen_LOWEST gen_PREFIX 20 gen_LOWEST
    [TInt 1; TOp (opi "PLUS"); TInt 2; TOp (opi "ASTERISK"); TInt 3]
  = Some (Infix (opi "PLUS") (Int 1) (Infix (opi "ASTERISK") (Int 2) (Int 3)), []).
Proof. vm_compute. reflexivity. Qed.
Example C01_left_assoc_example :
  Pratt.parse gen_bp gen_minus gen_LOWEST gen_PREFIX 20 gen_LOWEST
    [TInt 1; TOp (opi "MINUS"); TInt 2; TOp (opi "MINUS"); TInt 3]
  = Some (Infix (opi "MINUS") (Infix (opi "MINUS") (Int 1) (Int 2)) (Int 3), []).
Proof. vm_compute. reflexivity. Qed.

(* ---- back end: compile correctness on the models that are compared with the implementation on every run ----

   Fragment (model/ScalarFrag.v, model/VarProg.v): programs over variables - any number of declarations
   `x := e`, at the top level and inside blocks (a variable declared in a block is visible until the block ends; the
   compiler gives the d-th declaration of the program text the global slot d), assignments `x = e`, `x += e` (also `-=` `*=` `/=`), `x++`, `x--`, expression statements, conditionals `if c { ... } else { ... }` / `if c { ... }` (hence also `else if` chains: the parser makes
   them an else-block holding one conditional), plain loops `for { ... }`, condition loops
   `for c { ... }` and three-clause loops `for x := e; c; x++ { ... }` (with `break` and `continue`) whose blocks are again lists of declarations, assignments, expression statements,
   conditionals and loops, nested to any depth -, whose expressions are built from integer / boolean / nil / string literals, variables visible
   at that point, prefix - and !, the arithmetic and comparison operators (on integers and strings), short-circuit && and
   ||, and the conditional, at any nesting.  For the fragment, the emitted code ([cexp], [pcode]) and the source-level
   result ([sev], [run_stmts]) are pure functions; loops make the latter a fuelled function (None = not enough fuel;
   a program that ends does so for some fuel), and:

   (1) the compiler model emits exactly that code (jump distances - forward and backward -, global slots, constants),
   (2) the reference semantics Sem computes exactly that result,
   (3) the VM model running that code computes exactly that result,
   hence (4) compile_program followed by VM.run agrees with Sem.run on every program of the fragment that ends. *)
From Coq Require Import NArith ZArith.
Require Import RV.model.Syntax RV.model.Compiler RV.model.ScalarFrag RV.model.VarProg RV.proofs.BackendProofs.
Local Open Scope nat_scope.

(* (1) expressions: [tabs_ok names tabs n] says that the root symbol table knows the first n variables *)
Theorem C01_back_compile_scalar : forall names n e f st w r,
  st_stack st = w :: r -> w_tab w = 0 -> tabs_ok names (st_tabs st) n -> wf n e = true -> height e <= f ->
  compile f (embed names e) st =
  inr (I (fst (cexp (List.length (w_consts w)) e)), add_consts st (snd (cexp (List.length (w_consts w)) e))).
Proof. exact compile_scalar. Qed.

(* Non-vacuity: 1 + 2 * 3 < 10 && !nil *)
Example C01_back_compile_example :
  fst (cexp 0 (SLand (SBin CLt (SBin BAdd (SInt 1) (SBin BMul (SInt 2) (SInt 3))) (SInt 10)) (SNot SNil))) =
  [opLoadConst; 0; opLoadConst; 1; opLoadConst; 2; opBinaryOp; bMultiply; opBinaryOp; bAdd; opLoadConst; 3;
   opCompareOp; cLessThan; opCopy; 0; opPopJumpForwardIfFalse; 7; opNil; opUnaryNot; opBinaryOp; bAnd; opNop]%N.
Proof. vm_compute. reflexivity. Qed.

(* (1) whole programs: the code object is exactly [pcode]; the symbol tables that come with it (one block table per
   branch, loop and loop body) are characterised by an invariant in proofs/VarCompileProofs.v and play no role at run time *)
Require Import RV.proofs.VarCompileProofs.
Theorem C01_back_compile_program : forall names, NoDup names -> forall l f,
  l <> nil -> ndecls l <= List.length names -> wf_stmts false 0 l = true -> max_height l <= f ->
  exists tabs, compile_program (S f) nil (embed_stmts names 0 nil l) =
               inr (Code main_id main_id false 0 (fst (pcode l)) (snd (pcode l)) nil nil nil, tabs).
Proof. exact compile_var_program. Qed.

(* (2) expressions: [env_ok] says that the environment binds the variables and the store holds their values rho *)
Require Import RV.model.Sem RV.proofs.SemScalarProofs.
Theorem C01_back_sem_scalar : forall names rho x f e s,
  (ScalarFrag.height x <= f)%nat -> ScalarFrag.wf (List.length rho) x = true -> env_ok names rho e s ->
  Sem.eval f e s (ScalarFrag.embed names x) = (lift (ScalarFrag.sev rho x), e, s).
Proof. exact sem_scalar. Qed.

(* (2) whole programs: whenever the source-level run ends with fuel n, Sem.run with any larger fuel gives its result *)
Require Import RV.proofs.VarSemProofs.
Theorem C01_back_sem_program : forall names, NoDup names -> Forall (fun nm => nm <> nil) names -> forall l n f r,
  wf_stmts false 0 l = true -> (ndecls l <= List.length names)%nat -> (max_height l <= f)%nat -> (n <= f)%nat ->
  run_stmts n nil l ScalarFrag.VNil = Some r ->
  fst (Sem.run (S f) (embed_stmts names 0 nil l)) = lift_top r.
Proof. exact sem_var_program. Qed.

(* (3) expressions: inside ANY code object, at ANY position, under ANY stack with room for it; [globals_ok s rho] says
   that global slot i holds variable i; k is the number of instructions executed *)
Require Import RV.model.VM RV.proofs.VMScalarProofs.
Theorem C01_back_vm_scalar :
  forall tabs c below frames free defers is_main s rho, globals_ok s rho ->
  forall e base pre post st,
  wf (List.length rho) e = true ->
  code_instr c = (pre ++ fst (cexp base e) ++ post)%list ->
  (forall i k, nth_error (snd (cexp base e)) i = Some k -> nth (base + i) (code_consts c) (KInt 0) = k) ->
  (below + List.length st + need e <= MAXSTACK)%nat ->
  exists k, forall f,
    exec tabs (k + f) c (List.length pre) st below frames free defers is_main s =
    match sev rho e with
    | inl v => exec tabs f c (List.length pre + List.length (fst (cexp base e))) (VMScalarProofs.inj v :: st)%list
                    below frames free defers is_main s
    | inr x => (RErr (cls x) s, defers)
    end.
Proof. exact vm_scalar. Qed.

(* (3) whole programs: VM.run on the code object [pcode], with at least one global slot per variable and whatever
   symbol tables, returns the value / stops with the error class of the source-level run; k + 1 = instructions executed *)
Require Import RV.proofs.EndToEndVars.
Theorem C01_back_vm_program : forall l tabs ng n r,
  l <> nil -> wf_stmts false 0 l = true -> (ndecls l <= ng)%nat -> (max_need l <= MAXSTACK)%nat ->
  run_stmts n nil l ScalarFrag.VNil = Some r ->
  exists k s', forall f,
    VM.run (k + S f) (Code main_id main_id false 0 (fst (pcode l)) (snd (pcode l)) nil nil nil) tabs ng nil =
    match top_result r with
    | inl v => RVal (VMScalarProofs.inj v) s'
    | inr x => RErr (cls x) s'
    end.
Proof. exact run_var_program. Qed.

(* (4) Assembled.  [agree_on x] relates an outcome of Sem and a result of the VM with the source-level outcome x: the
   same scalar, or the same error class.  The hypotheses are the fragment's side conditions: variables are used while
   they are visible and break / continue occur only inside loops (wf_stmts), there are enough distinct, non-empty names, every
   expression fits the VM's 1024 operand slots (the bound is real: deeper operand nesting overflows the
   implementation's stack as well), the VM has a global slot for every variable, and the program ends
   (run_stmts returns with some fuel n; both machines are then given at least that much).
   compile_program, VM.run and Sem.run are the very functions that are extracted and compared with the real compiler
   and VM on every run. *)
Theorem C01_var_programs : forall names, NoDup names -> Forall (fun nm => nm <> nil) names -> forall l n r,
  l <> nil -> wf_stmts false 0 l = true -> (ndecls l <= List.length names)%nat -> (max_need l <= MAXSTACK)%nat ->
  run_stmts n nil l ScalarFrag.VNil = Some r ->
  exists c tabs, compile_program (S (max_height l)) nil (embed_stmts names 0 nil l) = inr (c, tabs) /\
  forall ng, (ndecls l <= ng)%nat -> exists k, forall f fs, (max_height l < fs)%nat -> (n < fs)%nat ->
    agree_on (top_result r) (fst (Sem.run fs (embed_stmts names 0 nil l))) (VM.run (k + S f) c tabs ng nil).
Proof. exact var_programs_end_to_end. Qed.

(* Non-vacuity: a := 7; b := a * 2; if b > 10 { a = b - 15; a } else { b = 0 }; a < 0 ? 1 / a : b     (= -1) *)
Definition ex_names : list (list N) := ((97 :: nil) :: (98 :: nil) :: nil)%N.
Definition ex_prog : list stmt :=
  (SDecl (SInt 7) :: SDecl (SBin BMul (SVar 0) (SInt 2)) ::
   SIf (SBin CGt (SVar 1) (SInt 10)) (SSet 0 (SBin BSub (SVar 1) (SInt 15)) :: SExpr (SVar 0) :: nil) (SSet 1 (SInt 0) :: nil) ::
   SExpr (STern (SBin CLt (SVar 0) (SInt 0)) (SBin BDiv (SInt 1) (SVar 0)) (SVar 1)) :: nil)%list.
Example C01_var_program_example :
  wf_stmts false 0 ex_prog = true /\ ndecls ex_prog = 2%nat /\
  option_map top_result (run_stmts 3 nil ex_prog ScalarFrag.VNil) = Some (inl (ScalarFrag.VInt (-1))) /\
  match compile_program 10 nil (embed_stmts ex_names 0 nil ex_prog) with
  | inr (c, tabs) => match VM.run 200 c tabs 2 nil with RVal (VM.VInt z) _ => z = (-1)%Z | _ => False end
  | inl _ => False
  end /\ fst (Sem.run 10 (embed_stmts ex_names 0 nil ex_prog)) = Sem.OVal (Sem.VInt (-1)).
Proof.
  split; [vm_compute; reflexivity|]. split; [vm_compute; reflexivity|]. split; [vm_compute; reflexivity|].
  split; vm_compute; reflexivity.
Qed.

(* ... with strings: s := "ab"; t := s + "c"; if t > s { s = t + t } else { s = "" }; s == "abcabc" ? t : 0   (= "abc") *)
Definition ex_sprog : list stmt :=
  (SDecl (SStr (97 :: 98 :: nil)%N) :: SDecl (SBin BAdd (SVar 0) (SStr (99 :: nil)%N)) ::
   SIf (SBin CGt (SVar 1) (SVar 0)) (SSet 0 (SBin BAdd (SVar 1) (SVar 1)) :: nil) (SSet 0 (SStr nil) :: nil) ::
   SExpr (STern (SBin CEq (SVar 0) (SStr (97 :: 98 :: 99 :: 97 :: 98 :: 99 :: nil)%N)) (SVar 1) (SInt 0)) :: nil)%list.
Example C01_var_program_string_example :
  wf_stmts false 0 ex_sprog = true /\
  option_map top_result (run_stmts 3 nil ex_sprog ScalarFrag.VNil) = Some (inl (ScalarFrag.VStr (97 :: 98 :: 99 :: nil)%N)) /\
  match compile_program 10 nil (embed_stmts ex_names 0 nil ex_sprog) with
  | inr (c, tabs) => match VM.run 200 c tabs 2 nil with RVal (VM.VStr z) _ => z = (97 :: 98 :: 99 :: nil)%N | _ => False end
  | inl _ => False
  end /\ fst (Sem.run 10 (embed_stmts ex_names 0 nil ex_sprog)) = Sem.OVal (Sem.VStr (97 :: 98 :: 99 :: nil)%N).
Proof.
  split; [vm_compute; reflexivity|]. split; [vm_compute; reflexivity|].
  split; vm_compute; reflexivity.
Qed.

(* ... and with loops and nesting:
     a := 0; b := 0
     for a < 9 { a++; if a == 2 { b += 10; for false { } } else { b = b + 1; b }; if a > 2 { b = b + 100; break }; if a == 1 { continue }; a }
     b                                                                                         (= 112)
   ends with fuel 6 but not with fuel 4 *)
Definition ex_lprog : list stmt :=
  (SDecl (SInt 0) :: SDecl (SInt 0) ::
   SWhile (SBin CLt (SVar 0) (SInt 9))
     (SInc 0 true ::
      SIf (SBin CEq (SVar 0) (SInt 2)) (SSetOp 1 BAdd (SInt 10) :: SWhile (SBool false) nil :: nil)
                                       (SSet 1 (SBin BAdd (SVar 1) (SInt 1)) :: SExpr (SVar 1) :: nil) ::
      SIf1 (SBin CGt (SVar 0) (SInt 2)) (SSet 1 (SBin BAdd (SVar 1) (SInt 100)) :: SBreak :: nil) ::
      SIf1 (SBin CEq (SVar 0) (SInt 1)) (SContinue :: nil) ::
      SExpr (SVar 0) :: nil) ::
   SExpr (SVar 1) :: nil)%list.
Example C01_var_program_loop_example :
  wf_stmts false 0 ex_lprog = true /\
  option_map top_result (run_stmts 6 nil ex_lprog ScalarFrag.VNil) = Some (inl (ScalarFrag.VInt 112)) /\
  run_stmts 4 nil ex_lprog ScalarFrag.VNil = None /\
  match compile_program 10 nil (embed_stmts ex_names 0 nil ex_lprog) with
  | inr (c, tabs) => match VM.run 500 c tabs 2 nil with RVal (VM.VInt z) _ => z = 112%Z | _ => False end
  | inl _ => False
  end /\ fst (Sem.run 10 (embed_stmts ex_names 0 nil ex_lprog)) = Sem.OVal (Sem.VInt 112).
Proof.
  split; [vm_compute; reflexivity|]. split; [vm_compute; reflexivity|]. split; [vm_compute; reflexivity|].
  split; vm_compute; reflexivity.
Qed.

(* ... and with declarations inside blocks (slots: a 0, t 1, u 2, x 3; x is the SECOND visible variable where it is declared):
     a := 1
     for a < 4 { t := a * 2; if t > 4 { u := t + a; a = u } else { a++ }; t }
     x := a + 1
     x                                                                                         (= 10) *)
Definition ex_names4 : list (list N) := ((97 :: nil) :: (116 :: nil) :: (117 :: nil) :: (120 :: nil) :: nil)%N.
Definition ex_bprog : list stmt :=
  (SDecl (SInt 1) ::
   SWhile (SBin CLt (SVar 0) (SInt 4))
     (SDecl (SBin BMul (SVar 0) (SInt 2)) ::
      SIf (SBin CGt (SVar 1) (SInt 4)) (SDecl (SBin BAdd (SVar 1) (SVar 0)) :: SSet 0 (SVar 2) :: nil) (SInc 0 true :: nil) ::
      SExpr (SVar 1) :: nil) ::
   SDecl (SBin BAdd (SVar 0) (SInt 1)) ::
   SExpr (SVar 1) :: nil)%list.
Example C01_var_program_block_example :
  wf_stmts false 0 ex_bprog = true /\ ndecls ex_bprog = 4%nat /\
  option_map top_result (run_stmts 6 nil ex_bprog ScalarFrag.VNil) = Some (inl (ScalarFrag.VInt 10)) /\
  match compile_program 10 nil (embed_stmts ex_names4 0 nil ex_bprog) with
  | inr (c, tabs) => c = Code main_id main_id false 0 (fst (pcode ex_bprog)) (snd (pcode ex_bprog)) nil nil nil /\
                     match VM.run 500 c tabs 4 nil with RVal (VM.VInt z) _ => z = 10%Z | _ => False end
  | inl _ => False
  end /\ fst (Sem.run 10 (embed_stmts ex_names4 0 nil ex_bprog)) = Sem.OVal (Sem.VInt 10).
Proof.
  split; [vm_compute; reflexivity|]. split; [vm_compute; reflexivity|]. split; [vm_compute; reflexivity|].
  split; vm_compute; [split; reflexivity|reflexivity].
Qed.

(* ... and with a three-clause loop (slots: a 0, i 1, t 2):
     a := 0
     for i := 0; i < 5; i++ { if i == 3 { continue }; if i == 4 { break }; a += i; t := a; t }
     a                                                                                         (= 3) *)
Definition ex_names3 : list (list N) := ((97 :: nil) :: (105 :: nil) :: (116 :: nil) :: nil)%N.
Definition ex_fprog : list stmt :=
  (SDecl (SInt 0) ::
   SFor (SInt 0) (SBin CLt (SVar 1) (SInt 5)) (SInc 1 true)
     (SIf1 (SBin CEq (SVar 1) (SInt 3)) (SContinue :: nil) :: SIf1 (SBin CEq (SVar 1) (SInt 4)) (SBreak :: nil) ::
      SSetOp 0 BAdd (SVar 1) :: SDecl (SVar 0) :: SExpr (SVar 2) :: nil) ::
   SExpr (SVar 0) :: nil)%list.
Example C01_var_program_for_example :
  wf_stmts false 0 ex_fprog = true /\ ndecls ex_fprog = 3%nat /\
  option_map top_result (run_stmts 8 nil ex_fprog ScalarFrag.VNil) = Some (inl (ScalarFrag.VInt 3)) /\
  match compile_program 10 nil (embed_stmts ex_names3 0 nil ex_fprog) with
  | inr (c, tabs) => c = Code main_id main_id false 0 (fst (pcode ex_fprog)) (snd (pcode ex_fprog)) nil nil nil /\
                     match VM.run 500 c tabs 3 nil with RVal (VM.VInt z) _ => z = 3%Z | _ => False end
  | inl _ => False
  end /\ fst (Sem.run 10 (embed_stmts ex_names3 0 nil ex_fprog)) = Sem.OVal (Sem.VInt 3).
Proof.
  split; [vm_compute; reflexivity|]. split; [vm_compute; reflexivity|]. split; [vm_compute; reflexivity|].
  split; vm_compute; [split; reflexivity|reflexivity].
Qed.

(* ... and with a plain loop:
     a := 0
     i := 0
     for { i++; if i == 3 { continue }; if i > 5 { break }; a += i; t := a; t }
     a                                                                                         (= 12) *)
Definition ex_pprog : list stmt :=
  (SDecl (SInt 0) :: SDecl (SInt 0) ::
   SLoop (SInc 1 true :: SIf1 (SBin CEq (SVar 1) (SInt 3)) (SContinue :: nil) :: SIf1 (SBin CGt (SVar 1) (SInt 5)) (SBreak :: nil) ::
          SSetOp 0 BAdd (SVar 1) :: SDecl (SVar 0) :: SExpr (SVar 2) :: nil) ::
   SExpr (SVar 0) :: nil)%list.
Example C01_var_program_plain_loop_example :
  wf_stmts false 0 ex_pprog = true /\ ndecls ex_pprog = 3%nat /\
  option_map top_result (run_stmts 9 nil ex_pprog ScalarFrag.VNil) = Some (inl (ScalarFrag.VInt 12)) /\
  match compile_program 10 nil (embed_stmts ex_names3 0 nil ex_pprog) with
  | inr (c, tabs) => c = Code main_id main_id false 0 (fst (pcode ex_pprog)) (snd (pcode ex_pprog)) nil nil nil /\
                     match VM.run 500 c tabs 3 nil with RVal (VM.VInt z) _ => z = 12%Z | _ => False end
  | inl _ => False
  end /\ fst (Sem.run 10 (embed_stmts ex_names3 0 nil ex_pprog)) = Sem.OVal (Sem.VInt 12).
Proof.
  split; [vm_compute; reflexivity|]. split; [vm_compute; reflexivity|]. split; [vm_compute; reflexivity|].
  split; vm_compute; [split; reflexivity|reflexivity].
Qed.
