(* C18 - incremental (REPL-style) evaluation equals whole-program evaluation.
   Property theorems only; each is closed by [exact] of a lemma proved in proofs/. *)
From Coq Require Import List Bool ZArith.
Require Import RV.model.Repl RV.proofs.ReplProofs.
Import ListNotations.

(* Reduced model: statements are functions on the global store; one evaluator keeps the store
   between pieces, never executes a rejected piece, and continues after a failing one.
   For EVERY program, EVERY split of it into consecutive pieces and EVERY placement of rejected
   pieces: if no statement fails, the incremental run ends in the store of the whole-program run. *)
Theorem C18_incremental_equals_whole : forall (store value : Type) (nilv : value) ps s s' v,
  run_stmts store value (accepted_stmts store value ps) s nilv = Done _ _ s' v ->
  fst (run_pieces store value nilv ps s) = s'.
Proof. exact incremental_equals_whole. Qed.

(* Rejected pieces are inert: with or without them, same final store and same per-piece results -
   also when some accepted pieces fail at run time (the pieces after a failure start from the
   store the failing piece left). *)
Theorem C18_rejected_inert : forall (store value : Type) (nilv : value) ps s,
  fst (run_pieces store value nilv ps s) = fst (run_pieces store value nilv (drop_rejected store value ps) s) /\
  filter (fun r => match r with PRejected _ => false | _ => true end) (snd (run_pieces store value nilv ps s)) =
  snd (run_pieces store value nilv (drop_rejected store value ps) s).
Proof. exact rejected_inert. Qed.

(* Non-vacuity: a store of two counters, three statements split 1+2 with a rejected piece between. *)
Definition st2 := (Z * Z)%type.
Definition incx : stmt st2 Z := fun s => Done _ _ (fst s + 1, snd s)%Z (fst s + 1)%Z.
Definition addy : stmt st2 Z := fun s => Done _ _ (fst s, snd s + fst s)%Z (snd s + fst s)%Z.
Example C18_example :
  run_pieces st2 Z 0%Z [Accepted _ _ [incx]; Rejected _ _; Accepted _ _ [addy; incx]] (0, 0)%Z
  = ((2, 1)%Z, [PVal Z 1%Z; PRejected Z; PVal Z 2%Z]) /\
  run_stmts st2 Z [incx; addy; incx] (0, 0)%Z 0%Z = Done _ _ (2, 1)%Z 2%Z.
Proof. split; vm_compute; reflexivity. Qed.
