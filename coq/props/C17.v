(* C17 - serialised bytecode behaves exactly like the code it was made from.
   Property theorems only; each is closed by [exact] of a lemma proved in proofs/. *)
From Coq Require Import List NArith Bool.
Require Import RV.model.Marshal RV.proofs.MarshalProofs.
Import ListNotations.

(* The JSON form carries the instructions, constants and names of every code object verbatim; what
   it does NOT carry are the pointers.  codeFromState rebuilds them, and for every marshalled
   state of any size and nesting the compiler can produce (distinct function ids, distinct code
   ids) it rebuilds exactly the original ones: *)

(* every function constant is linked again to its own code object ... *)
Theorem C17_function_links_restored : forall defs i d,
  nodup_b (map cd_funcid (filter (fun d => negb (is_empty (cd_funcid d))) defs)) = true ->
  nth_error defs i = Some d -> is_empty (cd_funcid d) = false ->
  find_code (cd_funcid d) defs 0 = Some i.
Proof. exact find_code_own. Qed.

(* ... every code object finds its parent again ... *)
Theorem C17_parent_links_restored : forall defs i d,
  nodup_b (map cd_id defs) = true -> nth_error defs i = Some d -> find_id (cd_id d) defs 0 = Some i.
Proof. exact find_id_own. Qed.

(* ... and the named flag is the compiler's (so a function still finds itself under its own name). *)
Theorem C17_named_preserved : forall d, def_ok d = true -> named_of d = cd_named d.
Proof. exact named_preserved. Qed.

(* The rule used before the repair is refuted by a function that is itself called __main__. *)
Definition main_fn : cdef :=
  {| cd_id := main_name ++ [46; 48]%N; cd_name := main_name; cd_parent := main_name; cd_funcid := [49]%N;
     cd_named := true; cd_fnrefs := [] |}.
Theorem C17_refuted_old_named_rule : def_ok main_fn = true /\ named_of_old main_fn <> cd_named main_fn.
Proof. split; [vm_compute; reflexivity|vm_compute; discriminate]. Qed.

(* Non-vacuity: the marshalled state of  func f(a) { return func(b) { return a + b } }  *)
Definition ex_defs : list cdef :=
  [ {| cd_id := main_name; cd_name := main_name; cd_parent := []; cd_funcid := []; cd_named := false; cd_fnrefs := [[49]%N] |};
    {| cd_id := main_name ++ [46;48]%N; cd_name := [102]%N; cd_parent := main_name; cd_funcid := [49]%N; cd_named := true; cd_fnrefs := [[50]%N] |};
    {| cd_id := main_name ++ [46;48;46;48]%N; cd_name := []; cd_parent := main_name ++ [46;48]%N; cd_funcid := [50]%N; cd_named := false; cd_fnrefs := [] |} ].
Example C17_example_ok : defs_ok ex_defs = true /\
  relink ex_defs = [(None, Some [1], false); (Some 0, Some [2], true); (Some 1, Some [], false)].
Proof. split; vm_compute; reflexivity. Qed.
