(* C16 - lists, maps, sets, strings and byte_slices behave as the abstract containers they present.
   Property theorems only; proofs are in proofs/ContainersProofs.v.  [cstep]/[crun] is the model of the code
   (Go slices with in-place append / shift / reverse); [astep]/[arun] are the reference containers (plain
   lists).  The two defects this check found (list.map reusing one index object, byte_slice slices sharing
   the array) are repaired in the code (13e5047, ee24db1); the model follows the repaired code and the
   refinement theorems hold without guards.  gen/GenResolveIndex.v is regenerated from
   object/list.go by harness/cmd/c16tr on every run. *)
From Coq Require Import List Bool ZArith Lia Permutation.
Require Import RV.model.Ops RV.model.Containers RV.proofs.OpsProofs RV.proofs.ContainersProofs.
Require RV.gen.GenResolveIndex.
Import ListNotations.
Open Scope Z_scope.

(* ---------------------------------------------------------------- index arithmetic, about the code as it is now *)

(* The generated ResolveIndex is the model's. *)
Theorem C16_gen_resolve_index : forall idx size,
  GenResolveIndex.resolve_index idx size = resolve_index idx size.
Proof.
  intros. unfold GenResolveIndex.resolve_index, resolve_index. cbv zeta.
  repeat match goal with
         | |- context[?x <? ?y] => destruct (Z.ltb_spec x y); simpl
         | |- context[?x <=? ?y] => destruct (Z.leb_spec x y); simpl
         end; try reflexivity; try lia.
Qed.

(* The generated integer core of ResolveIntSlice is the model's. *)
Theorem C16_gen_resolve_slice : forall start stop size,
  GenResolveIndex.resolve_slice_core start stop size = resolve_slice_core start stop size.
Proof.
  intros. unfold GenResolveIndex.resolve_slice_core, resolve_slice_core. cbv zeta.
  repeat match goal with
         | |- context[?x <? ?y] => destruct (Z.ltb_spec x y); simpl
         | |- context[?x <=? ?y] => destruct (Z.leb_spec x y); simpl
         end; try reflexivity; try lia.
Qed.

(* An index is accepted exactly when -size <= idx < size, and then it denotes position idx mod size. *)
Theorem C16_resolve_index_spec : forall idx size, 0 <= size ->
  GenResolveIndex.resolve_index idx size = if (- size <=? idx) && (idx <? size) then Some (idx mod size) else None.
Proof. intros. rewrite C16_gen_resolve_index. apply resolve_index_spec. assumption. Qed.

(* A slice is accepted exactly when its bounds, negative ones counted from the end, satisfy
   0 <= start <= stop <= size and start < size; it then denotes [start, stop). *)
Theorem C16_resolve_slice_spec : forall start stop size, 0 <= size ->
  GenResolveIndex.resolve_slice_core start stop size =
  let a := norm_bound start size in
  let b := norm_bound stop size in
  if (0 <=? a) && (a <=? b) && (b <=? size) && (a <? size) then Some (a, b) else None.
Proof. intros. rewrite C16_gen_resolve_slice. apply resolve_slice_core_spec. assumption. Qed.

(* ---------------------------------------------------------------- refinement, for all operation sequences *)

(* The code's containers (Go slices: in-place append, delete by shifting, Insert by append+copy, Reverse by
   swapping, sort written back in place; maps and sets by key; list.map / filter / each callbacks, a fresh
   index per call) give, after every operation sequence from every well-formed store, the outputs of the
   reference containers and a store that abstracts to theirs. *)
Theorem C16_refines : forall ops (s : list (obj gslice)),
  wf_store s ->
  arun (abs_store s) ops = (abs_store (fst (crun s ops)), snd (crun s ops)) /\ wf_store (fst (crun s ops)).
Proof. exact refines. Qed.

(* The same for a single step. *)
Theorem C16_step_refines : forall o (s : list (obj gslice)),
  wf_store s ->
  astep (abs_store s) o = (abs_store (fst (cstep s o)), snd (cstep s o)) /\ wf_store (fst (cstep s o)).
Proof. exact step_refines. Qed.

(* An index that escapes a list.map callback keeps its value (the former witness of the defect). *)
Theorem C16_map_index_escapes_intact :
  snd (crun [] [NewList [VStr [97]; VStr [98]; VStr [99]]; MapCb 0 CbIdx; Get 1 (VInt 0); Get 1 (VInt 2)])
  = [RRef 0; RRef 1; RVal (VInt 0); RVal (VInt 2)].
Proof. vm_compute. reflexivity. Qed.

(* The list operations themselves: each in-place Go-slice algorithm computes the list function it names. *)
Theorem C16_slice_ops_refine_lists : laws go_lops g_wf.
Proof. exact go_laws. Qed.

(* ---------------------------------------------------------------- read-only, frame, errors *)

(* Read-only operations (index and slice reads, in, len, copy, count, index, reversed, sorted, keys, +,
   map / filter callbacks, map.get / values / items, union, intersection) leave every existing object
   exactly as it was; they can only add new objects. *)
Theorem C16_readonly_pure : forall o (s : list (obj gslice)),
  readonly o = true -> exists extra, fst (cstep s o) = s ++ extra.
Proof. exact readonly_pure. Qed.

(* Every operation changes at most the object it is applied to: copies, slices and all other objects
   are independent of it. *)
Theorem C16_frame : forall o (s : list (obj gslice)) r',
  target o <> Some r' -> (r' < length s)%nat -> nth_error (fst (cstep s o)) r' = nth_error s r'.
Proof. exact frame. Qed.

(* An operation that raises an error has changed nothing (list.sort excepted, see below). *)
Theorem C16_errors_keep_state : forall o (s s' : list (obj gslice)) e,
  (forall r, o <> Sort r) -> cstep s o = (s', RErr e) -> s' = s.
Proof. exact error_keeps_state. Qed.

(* A list.sort that fails leaves a permutation of the list and touches nothing else. *)
Theorem C16_failed_sort_permutes : forall r (s s' : list (obj gslice)) e t,
  wf_store s -> nth_error s r = Some (OList t) -> cstep s (Sort r) = (s', RErr e) ->
  exists t', nth_error s' r = Some (OList t') /\ Permutation (g_abs t) (g_abs t') /\
             forall r', r' <> r -> nth_error s' r' = nth_error s r'.
Proof. exact failed_sort_permutes. Qed.

(* Out-of-range or wrongly typed accesses raise errors instead of returning wrong data: an index read
   answers the element at idx mod len when -len <= idx < len and an index error otherwise ... *)
Theorem C16_get_spec : forall (s : list (obj (list value))) r l i, nth_error s r = Some (OList l) ->
  astep s (Get r (VInt i)) =
  (s, let n := Z.of_nat (length l) in
      if (- n <=? i) && (i <? n) then RVal (nth (Z.to_nat (i mod n)) l VNil) else RErr EIndex).
Proof. exact get_spec. Qed.

Theorem C16_get_wrong_type : forall (s : list (obj (list value))) r l k, nth_error s r = Some (OList l) ->
  (forall z, k <> VInt z) -> astep s (Get r k) = (s, RErr EType).
Proof. exact get_wrong_type. Qed.

(* ... and a slice read answers a fresh list holding exactly [start, stop) or a slice error. *)
Theorem C16_slice_spec : forall (s : list (obj (list value))) r l a b, nth_error s r = Some (OList l) ->
  astep s (Slice r (Some (VInt a)) (Some (VInt b))) =
  let n := Z.of_nat (length l) in
  let a' := norm_bound a n in
  let b' := norm_bound b n in
  if (0 <=? a') && (a' <=? b') && (b' <=? n) && (a' <? n)
  then (s ++ [OList (firstn (Z.to_nat b' - Z.to_nat a') (skipn (Z.to_nat a') l))], RRef (length s))
  else (s, RErr ESlice).
Proof. exact slice_spec. Qed.

Theorem C16_slice_wrong_type : forall (s : list (obj (list value))) r l lo hi, nth_error s r = Some (OList l) ->
  ((exists v, lo = Some v /\ forall z, v <> VInt z) \/ (exists v, hi = Some v /\ forall z, v <> VInt z)) ->
  exists e, astep s (Slice r lo hi) = (s, RErr e).
Proof. exact slice_wrong_type. Qed.

(* ---------------------------------------------------------------- maps and sets are finite maps and finite sets *)

(* m[k] = v, then reading: the new value at k, every other key untouched, keys stay distinct,
   the size grows exactly when k was absent. *)
Theorem C16_map_set_get : forall m k v, assoc k (map_set k v m) = Some v.
Proof. exact assoc_map_set_same. Qed.
Theorem C16_map_set_frame : forall m k k' v, k' <> k -> assoc k' (map_set k v m) = assoc k' m.
Proof. exact assoc_map_set_other. Qed.
Theorem C16_map_set_wf : forall m k v, keys_nodup (map fst m) = true -> keys_nodup (map fst (map_set k v m)) = true.
Proof. exact map_set_nodup. Qed.
Theorem C16_map_set_len : forall m k v,
  length (map_set k v m) = match assoc k m with Some _ => length m | None => S (length m) end.
Proof. exact map_set_length. Qed.

(* delete / pop *)
Theorem C16_map_del_get : forall m k, keys_nodup (map fst m) = true -> assoc k (map_del k m) = None.
Proof. exact assoc_map_del_same. Qed.
Theorem C16_map_del_frame : forall m k k', k' <> k -> assoc k' (map_del k m) = assoc k' m.
Proof. exact assoc_map_del_other. Qed.
Theorem C16_map_del_wf : forall m k, keys_nodup (map fst m) = true -> keys_nodup (map fst (map_del k m)) = true.
Proof. exact map_del_nodup. Qed.
Theorem C16_map_del_len : forall m k, keys_nodup (map fst m) = true ->
  length (map_del k m) = match assoc k m with Some _ => pred (length m) | None => length m end.
Proof. exact map_del_length. Qed.

(* update: the other map's entries win, everything else stays *)
Theorem C16_map_update_get : forall o m k, keys_nodup (map fst o) = true ->
  assoc k (map_update m o) = match assoc k o with Some v => Some v | None => assoc k m end.
Proof. exact assoc_map_update. Qed.
Theorem C16_map_update_wf : forall o m, keys_nodup (map fst m) = true -> keys_nodup (map fst (map_update m o)) = true.
Proof. exact map_update_nodup. Qed.

(* keys(): the keys, each once, in increasing order *)
Theorem C16_map_keys : forall m, Permutation (sorted_keys m) (map fst m) /\ Sorted.StronglySorted key_le (sorted_keys m).
Proof. intro m. split; [apply sorted_keys_perm | apply sorted_keys_sorted]. Qed.

(* sets: add, remove, union, intersection in terms of membership by hash key *)
Theorem C16_set_add_mem : forall s x k, hashkey x = Some k -> hkey_eqb k k = true -> set_find k (set_add x s) = Some x.
Proof. exact set_find_add_same. Qed.
Theorem C16_set_add_frame : forall s x k k', hashkey x = Some k -> hkey_eqb k k' = false ->
  set_find k' (set_add x s) = set_find k' s.
Proof. exact set_find_add_other. Qed.
Theorem C16_set_remove_mem : forall s k, hkeys_nodup s = true -> set_find k (set_del k s) = None.
Proof. exact set_find_del_same. Qed.
Theorem C16_set_remove_frame : forall s k k', hkey_eqb k k' = false -> set_find k' (set_del k s) = set_find k' s.
Proof. exact set_find_del_other. Qed.
Theorem C16_set_union_mem : forall b a k, set_mem k (set_union a b) = set_mem k b || set_mem k a.
Proof. exact set_mem_union. Qed.
Theorem C16_set_intersection_mem : forall a b k, set_mem k (set_inter a b) = set_mem k a && set_mem k b.
Proof. exact set_mem_inter. Qed.

(* ---------------------------------------------------------------- byte_slices *)

(* byte_slices (index, slice, item assignment, clone, len, +) refine independent byte strings for all
   operation sequences: every byte_slice owns its array, slices included. *)
Theorem C16_byteslice_refines : forall ops st, bown st ->
  rbrun (babs st) ops = (babs (fst (brun st ops)), snd (brun st ops)) /\ bown (fst (brun st ops)).
Proof. exact brun_own_refines. Qed.

(* Assigning to a slice leaves the original alone, and the other way round (the former witness). *)
Theorem C16_byteslice_slice_independent :
  babs (fst (brun (BS [] []) [BNew [1; 2; 3; 4]; BSlice 0 (Some (VInt 1)) (Some (VInt 3));
                              BSetItem 1 (VInt 0) (VStr [120]); BSetItem 0 (VInt 2) (VStr [121])]))
  = [[1; 2; 121; 4]; [120; 3]].
Proof. vm_compute. reflexivity. Qed.

(* ---------------------------------------------------------------- strings are indexed and sliced by code point *)

(* []rune(s) inverts UTF-8 encoding on every sequence of Unicode scalar values ... *)
Theorem C16_utf8_round_trip : forall cps, forallb valid_cp cps = true -> runes_of (utf8_string cps) = cps.
Proof. exact runes_utf8_string. Qed.

(* ... so indexing, slicing and len of a string are those of its list of code points. *)
Theorem C16_str_get : forall cps k, forallb valid_cp cps = true ->
  str_get (utf8_string cps) k = match cp_get cps k with Ok c => Ok (VStr (utf8_string c)) | Er e => Er e end.
Proof. exact str_get_by_code_point. Qed.
Theorem C16_str_slice : forall cps lo hi, forallb valid_cp cps = true ->
  str_slice (utf8_string cps) lo hi = match cp_slice cps lo hi with Ok c => Ok (VStr (utf8_string c)) | Er e => Er e end.
Proof. exact str_slice_by_code_point. Qed.
Theorem C16_str_len : forall cps, forallb valid_cp cps = true -> str_len (utf8_string cps) = Z.of_nat (length cps).
Proof. exact str_len_by_code_point. Qed.
Theorem C16_cp_get_spec : forall cps i,
  cp_get cps (VInt i) =
  let n := Z.of_nat (length cps) in
  if (- n <=? i) && (i <? n) then Ok [nth (Z.to_nat (i mod n)) cps 0] else Er EIndex.
Proof. exact cp_get_spec. Qed.

(* ---------------------------------------------------------------- non-vacuity *)

Example C16_wf_store_sat : wf_store [OList (GS [VInt 1; VInt 2; VNil] 2); OMap []; OSet []].
Proof. repeat constructor. Qed.
Example C16_inplace_delete : g_delete (GS [VInt 1; VInt 2; VInt 3] 3) 0 = GS [VInt 2; VInt 3; VInt 3] 2.
Proof. reflexivity. Qed.
Example C16_run_example :
  snd (crun [] [NewList [VInt 1; VInt 2; VInt 3]; Insert 0 (VInt (-1)) VNil; Pop 0 (VInt 0); Get 0 (VInt (-1))])
  = [RRef 0; RRef 0; RVal (VInt 1); RVal (VInt 3)].
Proof. vm_compute. reflexivity. Qed.
Example C16_valid_cps_sat : forallb valid_cp [104; 233; 19990; 128512] = true /\ valid_cp 55296 = false.
Proof. split; reflexivity. Qed.
Example C16_str_example : str_get (utf8_string [104; 233; 19990]) (VInt (-1)) = Ok (VStr [228; 184; 150]).
Proof. vm_compute. reflexivity. Qed.
Example C16_keys_nodup_sat : keys_nodup (map fst [([97], VInt 1); ([98], VNil)]) = true.
Proof. reflexivity. Qed.
Example C16_bown_sat : bown (BS [] []) /\ bown (BS [[1; 2]] [BO 0 0 2]).
Proof.
  split; split; try reflexivity; intros r o H.
  - destruct r; discriminate.
  - destruct r as [|[|r]]; simpl in H; inversion H; subst; auto.
Qed.
