(* C20 - layout and comments never change meaning; diagnostics point into the source.
   Property theorems only; each is closed by [exact] of a lemma proved in proofs/. *)
From Coq Require Import List NArith Bool Arith ZArith Lia.
Require Import RV.model.Lexer RV.proofs.LexerPosProofs RV.model.TokenNames RV.model.Parser RV.gen.GenPrecedence.
Import ListNotations.
Local Open Scope nat_scope.

(* Diagnostics point into the source.  For EVERY input text (any code points, any length), every
   position carried by every token of the lexer model's token stream - and by the token a lexical
   error is reported at - is a position of that text: its line number is the number of newlines
   before its character offset, its line start is the offset just after the last of them, its
   column is the distance from there, and there is no newline in between.  Parser and compiler
   errors are reported at the start/end positions of such tokens. *)
Theorem C20_lexer_positions_valid : forall input,
  Forall (tok_valid input) (fst (lex input)) /\
  match snd (lex input) with Some (t, _) => tok_valid input t | None => True end.
Proof. exact lex_positions_valid. Qed.

(* ... hence the reported line exists in the source and the column lies within that line or at its end
   (the position of its newline, or of the end of the input). *)
Theorem C20_positions_in_source : forall input p,
  pos_valid input p ->
  p_line p <= nlcount input /\ p_col p <= line_len (skipn (p_linestart p) input).
Proof. exact pos_valid_in_source. Qed.

(* Rendering an error never fails: the two repeat counts of FriendlyErrorMessage (parser/errors.go,
   as repaired) are never negative, whatever the start and end columns are. *)
Definition friendly_widths (col_start col_end : Z) : Z * Z :=
  (Z.max 0 (col_start - 1), Z.max 1 (col_end - col_start + 1))%Z.
Theorem C20_friendly_total : forall cs ce,
  (0 <= fst (friendly_widths cs ce) /\ 1 <= snd (friendly_widths cs ce))%Z.
Proof. intros cs ce. unfold friendly_widths. cbn. lia. Qed.

(* The parser model's precedence table is the table of the source as it is now. *)
Theorem C20_gen_precedence_eq : precedence_table_ok gen_precedences = true.
Proof. vm_compute. reflexivity. Qed.

(* Non-vacuity / reading: the token after two adjacent block comments starts where it stands in the
   text (offset 16, column 16 of line 0), not at the comment. *)
Definition src_adjacent : list N :=   (* "1 /* a */ /* b */+ 2" *)
  [49;32;47;42;32;97;32;42;47;32;47;42;32;98;32;42;47;43;32;50]%N.
Example C20_adjacent_comments_lex :
  map (fun t => (p_char (t_start t), p_col (t_start t))) (fst (lex src_adjacent)) = [(0,0); (17,17); (19,19); (20,20)].
Proof. vm_compute. reflexivity. Qed.

(* C20_lex_layout (inserting blanks / block comments between tokens leaves kinds and literals of the
   token stream unchanged) is NOT proved yet for the lexer model; it is checked on the implementation and
   on the model by the layout-variant correspondence of the check. *)
