(* C19 - standard-library wrappers agree with Go, and encoders invert their decoders.
   Property theorems only; each is closed by [exact] of a lemma proved in proofs/ (the statements
   about the regenerated table gen/GenWrappers.v are kernel computations). *)
From Coq Require Import List Bool ZArith NArith String.
Require Import RV.model.Wrappers RV.model.Codecs RV.gen.GenWrappers.
Require Import RV.proofs.WrappersProofs RV.proofs.CodecsProofs.
Import ListNotations.
Close Scope string_scope.

(* ---------------------------------------------------------------- wrappers
   [F] is the Go standard library: any function from callee name and argument list to an outcome
   (value, error, panic).  For EVERY wrapper record and EVERY argument tuple: *)

(* when the arguments convert, the wrapper returns exactly what the Go function returns on the
   converted arguments (its value through the result constructor, its error as an error object) *)
Theorem C19_wrapper_exact : forall (F : string -> list gval -> gret) w args a,
  unpack w args = Ok a -> guards_pass w (place w a) = true ->
  run_wrapper F w args = lift (w_ret w) (F (w_callee w) (place w a)).
Proof. exact wrapper_exact. Qed.

(* when one of the wrapper's own value checks fires (repeat: negative count, result too large) the
   result is a value error, whatever the Go function is (it is not called) *)
Theorem C19_wrapper_guard_error : forall (F : string -> list gval -> gret) w args a,
  unpack w args = Ok a -> guards_pass w (place w a) = false ->
  run_wrapper F w args = Ret (OErr EValue).
Proof. exact wrapper_guard_error. Qed.

(* when the number of arguments is wrong or a conversion fails the result is that error object,
   whatever the Go function is (it is not called) *)
Theorem C19_wrapper_error : forall (F : string -> list gval -> gret) w args e,
  unpack w args = Err e -> run_wrapper F w args = Ret (OErr e).
Proof. exact wrapper_error. Qed.

(* a well-formed regular record calls the function named in the specification and hands it every
   converted parameter at its recorded position, non-receiver parameters in declaration order,
   nothing missing and nothing added *)
Theorem C19_wrapper_passes_in_order : forall w args a,
  wrapper_wf w = true -> w_regular w = true -> unpack w args = Ok a ->
  w_callee w = expected_callee (w_name w) /\
  map fst a = map p_pos (w_params w) /\
  List.length (place w a) = (List.length a + List.length (w_consts w))%nat /\
  (forall i g, In (i, g) (a ++ w_consts w) -> nth_error (place w a) i = Some g) /\
  (forall x y p q, (x < y)%nat ->
     nth_error (plain_params w) x = Some p -> nth_error (plain_params w) y = Some q ->
     (p_pos p < p_pos q)%nat).
Proof. exact wrapper_passes_in_order. Qed.

(* every record regenerated from the current source is well formed *)
Theorem C19_gen_wrappers_wf : forallb wrapper_wf gen_wrappers = true.
Proof. vm_compute. reflexivity. Qed.

(* "errors are reported as script errors rather than panics": where the Go function is defined on
   the converted arguments (does not panic), the wrapper returns an object *)
Theorem C19_wrapper_total_guarded : forall (F : string -> list gval -> gret) w args,
  (forall a t, unpack w args = Ok a -> guards_pass w (place w a) = true ->
               F (w_callee w) (place w a) <> GPanic t) ->
  exists o, run_wrapper F w args = Ret o.
Proof. exact wrapper_total_guarded. Qed.

(* strings.Repeat and bytes.Repeat are the wrapped functions that panic on some arguments (negative
   count, result that cannot be allocated).  Since risor e9aa972 the three repeat wrappers check the
   count first: the records regenerated from the source have the guarded shape ... *)
Definition repeat_names : list string :=
  ["strings.repeat"; "bytes.repeat"; "byte_slice.repeat"]%string.

Theorem C19_repeat_records_guarded : forall name, In name repeat_names ->
  exists callee c0 ret b,
    text_conv c0 = true /\ (0 <= b < 2 ^ 40)%Z /\
    find_wrapper name gen_wrappers = Some (mk_repeat name callee c0 ret b).
Proof.
  intros name H. simpl in H.
  destruct H as [<-|[<-|[<-|[]]]]; do 4 eexists; (split; [|split]);
    [ | |vm_compute; reflexivity| | |vm_compute; reflexivity| | |vm_compute; reflexivity];
    try reflexivity; vm_compute; (split; [discriminate|reflexivity]).
Qed.

(* ... so they never panic, for every argument tuple, against a model of Repeat that panics on a
   negative count and on every result of 2^40 bytes or more ... *)
Theorem C19_repeat_never_panics : forall name w args,
  In name repeat_names -> find_wrapper name gen_wrappers = Some w ->
  exists o, run_wrapper go_repeat w args = Ret o.
Proof.
  intros name w args H E.
  destruct (C19_repeat_records_guarded name H) as [callee [c0 [ret [b [T [B E']]]]]].
  rewrite E' in E. inversion E. subst w. exact (mk_repeat_total name callee c0 ret b args T B).
Qed.

(* ... and a negative count is answered with an error object whatever the Go function does *)
Theorem C19_repeat_negative_is_error : forall (F : string -> list gval -> gret) name w p x g n,
  In name repeat_names -> find_wrapper name gen_wrappers = Some w ->
  hd_error (w_params w) = Some p -> convert (p_conv p) x = Ok g -> (n < 0)%Z ->
  run_wrapper F w [x; OInt n] = Ret (OErr EValue).
Proof.
  intros F name w p x g n H E P C N.
  destruct (C19_repeat_records_guarded name H) as [callee [c0 [ret [b [T [B E']]]]]].
  rewrite E' in E. inversion E. subst w. simpl in P. inversion P. subst p. simpl in C.
  exact (mk_repeat_negative F name callee c0 ret b x g n C N).
Qed.

(* ---------------------------------------------------------------- codecs
   base64, base32, hex, gzip, urlquery: glue around an encoder/decoder pair whose law is the
   hypothesis (trusted base); the decoded value equals the original by content *)
Theorem C19_codec_inverse : forall (enc : bytes -> bytes) (dec : bytes -> bytes + bytes),
  (forall b, dec (enc b) = inl b) ->
  forall cs v g, bytes_shape cs -> convert (cs_in cs) v = Ok g ->
  (forall f, cs_len cs = Some f -> forall b, f (List.length b) = List.length (strip_nl (enc b))) ->
  codec_decode dec cs (codec_encode enc cs v) = mk_content (cs_out cs) (content_of g) /\
  veq (mk_content (cs_out cs) (content_of g)) v = true.
Proof. exact codec_inverse. Qed.

Theorem C19_codec_rejects : forall (dec : bytes -> bytes + bytes) cs v g t,
  convert (cs_in cs) v = Ok g -> dec (content_of g) = inr t ->
  codec_decode dec cs v = OErr (EGo t).
Proof. exact codec_rejects. Qed.

(* base32 (risor 53b0cbd): input the Go decoder accepts although it is longer than the encoding of
   what it decoded (data after the final padding) is rejected by decode's own check *)
Theorem C19_codec_rejects_noncanonical : forall (dec : bytes -> bytes + bytes) cs v g b f,
  convert (cs_in cs) v = Ok g -> dec (content_of g) = inl b -> cs_len cs = Some f ->
  f (List.length b) <> List.length (strip_nl (content_of g)) ->
  codec_decode dec cs v = OErr EValue.
Proof. exact codec_rejects_noncanonical. Qed.

(* hex, implemented in the model: no hypothesis left *)
Theorem C19_hex_inverse : forall b, bytes_ok b -> hex_decode (hex_encode b) = inl b.
Proof. exact hex_decode_encode. Qed.

Theorem C19_hex_accepts_iff : forall s,
  (exists b, hex_decode s = inl b) <-> (Nat.even (List.length s) = true /\ forallb is_hex s = true).
Proof. exact hex_decode_accepts_iff. Qed.

Theorem C19_hex_codec_inverse : forall v b,
  as_bytes v = Ok (GBytes b) -> bytes_ok b ->
  codec_decode hex_dec cs_hex (codec_encode hex_encode cs_hex v) = OBytes b /\ veq (OBytes b) v = true.
Proof. exact hex_codec_inverse. Qed.

Theorem C19_hex_codec_rejects : forall v s,
  as_bytes v = Ok (GBytes s) ->
  Nat.even (List.length s) = false \/ forallb is_hex s = false ->
  exists t, codec_decode hex_dec cs_hex v = OErr (EGo t).
Proof. exact hex_codec_rejects. Qed.

(* ---------------------------------------------------------------- JSON (tree level) *)

(* the full statement "decode (encode v) equals v on the JSON domain" is FALSE of the code:
   integers above 2^53 come back as the nearest float64 ... *)
Theorem C19_refuted_json_big_int : exists v v',
  json_dom v = true /\ json_roundtrip v = Some v' /\ veq v' v = false.
Proof.
  exists (OInt 9007199254740993), (OFloat (FFin false 1 53)). vm_compute. repeat split; reflexivity.
Qed.

(* ... and strings that are not valid UTF-8 come back with U+FFFD in place of the bad bytes *)
Theorem C19_refuted_json_invalid_utf8 : exists v v',
  json_dom v = true /\ json_roundtrip v = Some v' /\ veq v' v = false.
Proof.
  exists (OString [255%N; 97%N]), (OString [239; 191; 189; 97]%N). vm_compute. repeat split; reflexivity.
Qed.

(* guarded: integers of magnitude <= 2^53, finite floats, valid UTF-8, any nesting, nil included *)
Theorem C19_json_roundtrip_guarded : forall v,
  json_safe v = true ->
  exists v', json_roundtrip v = Some v' /\ veq v' v = true.
Proof. exact json_roundtrip_safe. Qed.

(* json.marshal agrees with the json codec on the whole JSON domain (nil included since 151e447) ... *)
Theorem C19_json_agree_guarded : forall v,
  json_dom v = true -> json_marshal v = json_encode v.
Proof. exact json_agree. Qed.

(* ... but not on byte slices, which lie outside it (codec: base64 text, json.marshal: the bytes as
   text) *)
Theorem C19_refuted_json_agree :
  json_marshal (OBytes [97; 98]%N) <> json_encode (OBytes [97; 98]%N).
Proof. vm_compute. discriminate. Qed.

(* json.unmarshal and decode(_, "json") are the same function up to the text of the error *)
Theorem C19_json_decoders_agree : forall (parse : bytes -> option jv) v,
  err_blind (json_unmarshal parse v) = err_blind (json_decode parse v).
Proof. exact json_decoders_agree. Qed.

Theorem C19_json_malformed_rejected : forall (parse : bytes -> option jv) v g,
  as_bytes v = Ok g -> parse (content_of g) = None ->
  (exists e, json_decode parse v = OErr e) /\ (exists e, json_unmarshal parse v = OErr e).
Proof. exact json_malformed_rejected. Qed.

(* ---------------------------------------------------------------- non-vacuity *)
Example C19_unpack_ok_satisfiable :
  exists w a, find_wrapper "strings.has_prefix" gen_wrappers = Some w /\
              unpack w [OString [97; 98]%N; OBytes [97]%N] = Ok a /\
              place w a = [GStr [97; 98]%N; GStr [97]%N] /\ w_callee w = "strings.HasPrefix"%string.
Proof.
  destruct (find_wrapper "strings.has_prefix" gen_wrappers) as [w|] eqn:E; [|vm_compute in E; discriminate].
  vm_compute in E. inversion E. eexists. eexists. split; [reflexivity|]. vm_compute. repeat split; reflexivity.
Qed.
Example C19_unpack_err_satisfiable :
  exists w, find_wrapper "strings.has_prefix" gen_wrappers = Some w /\
            unpack w [OString [97]%N; OInt 1] = Err EType /\ unpack w [OString [97]%N] = Err EArgs.
Proof.
  destruct (find_wrapper "strings.has_prefix" gen_wrappers) as [w|] eqn:E; [|vm_compute in E; discriminate].
  vm_compute in E. inversion E. eexists. split; [reflexivity|]. vm_compute. split; reflexivity.
Qed.
Example C19_regular_records_exist :
  Nat.leb 60 (List.length (filter w_regular gen_wrappers)) = true.
Proof. vm_compute. reflexivity. Qed.
Example C19_hex_law_is_the_codec_law : forall b, bytes_ok b -> hex_dec (hex_encode b) = inl b.
Proof. exact hex_dec_law. Qed.
Example C19_json_nil_agrees : json_marshal ONil = json_encode ONil /\ json_roundtrip ONil = Some ONil.
Proof. split; reflexivity. Qed.
Example C19_base32_trailing_data_rejected :
  (* "AA========" : the Go decoder stops after "AA======" and reports one byte *)
  codec_decode (fun _ => inl [0%N]) cs_base32 (OString [65;65;61;61;61;61;61;61;61;61]%N) = OErr EValue /\
  codec_decode (fun _ => inl [0%N]) cs_base32 (OString [65;65;61;61;61;61;61;61]%N) = OBytes [0%N].
Proof. split; vm_compute; reflexivity. Qed.
Example C19_json_safe_satisfiable :
  json_safe (OMap [([97]%N, OList [OInt 9007199254740992; OFloat (FFin true 3 (-1)); ONil; OString [195; 169]%N])]) = true.
Proof. vm_compute. reflexivity. Qed.
(* the checks are what keeps the panic away: the same record without them panics on ("a", -1) *)
Example C19_repeat_unguarded_would_panic : exists t,
  run_wrapper go_repeat
    {| w_name := "strings.repeat"; w_min := 2; w_max := 2;
       w_params := w_params (mk_repeat "strings.repeat" "strings.Repeat" CString RString 0);
       w_consts := []; w_guards := []; w_callee := "strings.Repeat"; w_ret := RString; w_regular := true |}
    [OString [97%N]; OInt (-1)] = Panic t.
Proof. eexists. vm_compute. reflexivity. Qed.
Example C19_repeat_negative_instance : forall F w,
  find_wrapper "strings.repeat" gen_wrappers = Some w ->
  run_wrapper F w [OString [97%N]; OInt (-1)] = Ret (OErr EValue).
Proof. intros F w E. vm_compute in E. inversion E. reflexivity. Qed.
Example C19_repeat_guard_satisfiable : forall w,
  find_wrapper "strings.repeat" gen_wrappers = Some w ->
  run_wrapper go_repeat w [OString [97%N]; OInt 2] = Ret (OString [97; 97]%N).
Proof. intros w E. vm_compute in E. inversion E. vm_compute. reflexivity. Qed.
