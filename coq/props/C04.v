(* C04 - statements are stack-neutral: iteration count never exhausts VM capacity.
   Property theorems only; each is closed by [exact] of a lemma proved in proofs/. *)
From Coq Require Import List Bool Arith.
Require Import RV.model.Bytecode RV.proofs.CheckProofs RV.gen.GenOps.
Import ListNotations.

(* The abstract height machine [astep] is the control flow and the stack arithmetic of vm.eval's
   loop (every branch of every conditional jump, both exits of ForIter).  For any code object that
   passes the certificate checker, EVERY abstract execution - every path, taken or not, through any
   number of loop iterations - never underflows, never decodes an unknown opcode, never jumps before
   0, has a stack height bounded by [m], and can only run off the end of the code in main with
   exactly one value: the result. *)
Theorem C04_certify_sound : forall code is_main m,
  certify code is_main = Some m ->
  forall st, asteps code (0, 0) st -> safe code is_main st /\ snd st <= m.
Proof. exact certify_sound. Qed.

(* The height before an instruction is a function of its pc alone: a statement leaves the stack as
   deep as it found it on every control path, so a loop body meets the same height on iteration
   ten and on iteration ten million. *)
Theorem C04_labels_exact : forall code is_main L,
  certify_labels code is_main = Some L ->
  forall st, asteps code (0, 0) st ->
    lookup (fst st) L = Some (snd st) /\ safe code is_main st /\ snd st <= maxlabel L.
Proof. exact certify_labels_sound. Qed.

Theorem C04_height_function_of_pc : forall code is_main L,
  certify_labels code is_main = Some L ->
  forall pc h1 h2, asteps code (0, 0) (pc, h1) -> asteps code (0, 0) (pc, h2) -> h1 = h2.
Proof. exact height_function_of_pc. Qed.

(* A finished evaluation leaves exactly its result. *)
Theorem C04_result_only : forall code L,
  certify_labels code true = Some L ->
  forall pc h, asteps code (0, 0) (pc, h) -> length code <= pc -> h = 1.
Proof. exact finished_leaves_result. Qed.

(* Tie to the source: the operand counts of the shape table are those of package op, for every
   opcode the implementation defines, and the table knows no opcode the implementation lacks.
   [gen_ops] is regenerated from the running package on every check. *)
Theorem C04_gen_ops_consistent :
  forallb (fun cn => match model_operands (fst cn) with Some m => Nat.eqb m (snd cn) | None => false end) gen_ops = true /\
  forallb (fun c => match model_operands c with
                    | Some _ => existsb (fun cn => Nat.eqb (fst cn) c) gen_ops
                    | None => true end) (seq 0 256) = true.
Proof. split; vm_compute; reflexivity. Qed.

(* Non-vacuity: real bytecode (x := 0; for i := 0; i < 3; i++ { x += i }; x) certifies with bound 2,
   and the bytecode of a loop with `continue` under an unfinished list literal is rejected. *)
Example C04_real_loop_certifies :
  certify [24;0;33;67;24;1;33;68;23;68;24;2;41;1;12;22;23;67;23;68;40;1;33;67;80;72;23;68;24;3;40;1;33;68;10;26;23;67] true = Some 2.
Proof. vm_compute. reflexivity. Qed.

Example C04_control_in_list_rejected :   (* for ... { x := [1, if i > 1 { continue }, 3] } *)
  certify [24;0;33;67;23;67;24;1;41;1;12;36;24;2;23;67;24;3;41;5;12;7;11;14;80;11;3;80;24;4;50;3;33;68;80;72;23;67;24;5;40;1;33;67;10;40;80] true = None.
Proof. vm_compute. reflexivity. Qed.

(* "Every expression adds exactly one value" on the executable VM model (the one compared with the real VM on
   every run), for the whole scalar expression fragment (variables included: [globals_ok s rho] says slot i holds variable i): executed inside any code object, at any position, on any
   stack [st] with room for it, the code of an expression either stops with an error or continues right after
   its last instruction with the stack [v :: st] - exactly one value on top of an unchanged stack.  (Theorem
   vm_scalar of proofs/VMScalarProofs.v; the statement-level claims above are about the abstract height machine.) *)
From Coq Require Import ZArith NArith.
Require Import RV.model.Syntax RV.model.Compiler RV.model.VM RV.model.ScalarFrag RV.proofs.VMScalarProofs.
Theorem C04_scalar_expression_pushes_one :
  forall tabs c below frames free defers is_main s rho, globals_ok s rho ->
  forall e base pre post st,
  wf (List.length rho) e = true ->
  code_instr c = (pre ++ fst (cexp base e) ++ post)%list ->
  (forall i k, nth_error (snd (cexp base e)) i = Some k -> nth (base + i)%nat (code_consts c) (KInt 0%Z) = k) ->
  (below + List.length st + need e <= MAXSTACK)%nat ->
  exists k, forall f,
    (exists v, exec tabs (k + f)%nat c (List.length pre) st below frames free defers is_main s =
               exec tabs f c (List.length pre + List.length (fst (cexp base e)))%nat (v :: st)%list below frames free defers is_main s)
    \/ (exists x, exec tabs (k + f)%nat c (List.length pre) st below frames free defers is_main s = (RErr x s, defers)).
Proof. exact scalar_pushes_one. Qed.

(* The same on statements, loops included: on the executable VM model, started at its first instruction with an
   empty operand stack (of this frame), the code of any statement of the proved fragment (model/VarProg.v:
   declarations - also inside blocks -, assignments, expression statements, conditionals, plain loops, condition loops and three-clause loops with
   break / continue, nested to any depth; the statement itself not inside a loop) - run for however many iterations its loops take, whichever way
   they are left - either stops with an error or continues right after its last
   instruction with exactly one value on the stack if the statement is an expression, and with the stack empty again
   otherwise.  In particular the stack height after a loop does not depend on the number of iterations.
   [vm_inv rho scope s]: the visible variables rho live in the (distinct) global slots scope; [slots_ok k (nd st) scope s]:
   those slots are below k, and the slots k .. the statement's declarations will claim exist;
   [run_stmt n rho st = Some r]: the statement ends. *)
Require Import RV.model.VarProg RV.proofs.VarVMProofs.
Theorem C04_fragment_statements_balanced :
  forall tabs c below frames free defers is_main n st rho scope k s base pre post r,
  vm_inv rho scope s -> slots_ok k (nd st) scope s -> wf_stmt false (List.length rho) st = true ->
  code_instr c = (pre ++ strip (fst (stmt_code k scope base st)) ++ post)%list ->
  (forall i kk, nth_error (snd (stmt_code k scope base st)) i = Some kk -> nth (base + i)%nat (code_consts c) (KInt 0%Z) = kk) ->
  (below + sneed st <= MAXSTACK)%nat ->
  run_stmt n rho st = Some r ->
  exists j s',
    match r with
    | inl (rho', v) =>
        vm_inv rho' (next_scope k scope st) s' /\
        forall f, exec tabs (j + f)%nat c (List.length pre) nil below frames free defers is_main s =
                  exec tabs f c (List.length pre + List.length (fst (stmt_code k scope base st)))%nat
                       (if is_expr_stmt st then (VMScalarProofs.inj v :: nil)%list else nil) below frames free defers is_main s'
    | inr (StErr x) => forall f, exec tabs (j + f)%nat c (List.length pre) nil below frames free defers is_main s = (RErr (cls x) s', defers)
    | inr _ => False
    end.
Proof. exact vm_stmt_plain. Qed.

