(* C10 - channels and spawned threads deliver every value exactly once, in order.
   Property theorems only; each is closed by [exact] of a lemma proved in proofs/.

   Model: model/Chan.v (risor's Chan over a Go channel; a schedule is any list of atomic steps
   Send i | Recv j | Take j | Fin j | Next j | Store j | Count j | Entry j | Close k | Cancel | ...Ctx of
   any number of senders and receivers, any capacity) and model/Spawn.v (Thread/wait, argument slices).
   Take; Fin is Chan.NextEntry (receive, then advance rxCount atomically and build the entry from the
   received value): what a range loop (0f2710a) and the builtins keys(ch) / map(ch) (ce76520) perform per
   value.  Next/Store/Count/Entry is the generic Iterator protocol (Chan.Next, Chan.Entry): exported Go API,
   not reached by scripts on a channel any more. *)
From Coq Require Import List Bool Arith NArith Permutation.
Require Import RV.model.Chan RV.model.Spawn RV.proofs.ChanProofs RV.proofs.SpawnProofs.
Import ListNotations.

(* ---------------------------------------------------------------- exactly once, in order: every schedule *)

(* Scripts that use send, receive (<-c, c.receive()), range loops, keys(ch), map(ch), close - any number of senders, of
   receiving and of ranging goroutines on the one channel, any capacity, any interleaving, cancellation
   included ([one_step_only]: no step of the Next/Entry protocol).  At any point where the queue is empty
   and no receiver is in the middle of a range step:
   the values the channel released are, per sender, exactly the values that sender has sent, in its order;
   every receiver's script was handed exactly the values the channel released to it, in that order;
   and the range keys count 0,1,2,... *)
Theorem C10_exactly_once : forall (prog : nat -> list N) (c : nat) (sch : list act) (s : st),
  run (init c prog) sch = Some s -> one_step_only sch = true -> buf s = [] -> iters s = [] ->
  (forall i, from i (map snd (deq s)) ++ tag i (todo s i) = tag i (prog i)) /\
  (forall j, by_key j (delivered (seen s)) = by_key j (deq s)) /\
  entry_keys (seen s) = seq 0 (length (entry_keys (seen s))).
Proof. exact one_step_delivery. Qed.

(* multiset form for n senders that have sent everything: the values handed to the scripts are a
   permutation of the values of the senders' programs (each exactly once) *)
Theorem C10_exactly_once_multiset : forall (prog : nat -> list N) (c : nat) (sch : list act) (s : st) (n : nat),
  run (init c prog) sch = Some s -> one_step_only sch = true ->
  buf s = [] -> iters s = [] -> (forall i, todo s i = []) -> (forall i, n <= i -> prog i = []) ->
  Permutation (payloads (map snd (delivered (seen s)))) (flat_map prog (seq 0 n)).
Proof. exact one_step_multiset. Qed.

(* The channel itself is FIFO and loses nothing under EVERY schedule, the Next/Entry protocol included:
   per sender, what the channel has released to receivers, then what is queued, then what the sender has
   still to send, is that sender's program in order. *)
Theorem C10_channel_fifo_no_loss : forall (prog : nat -> list N) (c : nat) (sch : list act) (s : st),
  run (init c prog) sch = Some s ->
  forall i, from i (map snd (deq s) ++ buf s) ++ tag i (todo s i) = tag i (prog i).
Proof. exact fifo_all_schedules. Qed.

(* ---------------------------------------------------------------- closed and drained *)

Theorem C10_closed_drained_nil : forall (s : st) (j : nat),
  closed s = true -> buf s = [] -> busy j s = false ->
  step s (Recv j) = Some (note s (EvRecvNil j), EvRecvNil j).
Proof. exact recv_closed_drained. Qed.

Theorem C10_nil_only_when_closed_drained : forall (s : st) (j : nat) (s' : st),
  step s (Recv j) = Some (s', EvRecvNil j) -> closed s = true /\ buf s = [] /\ s' = note s (EvRecvNil j).
Proof. exact recv_nil_only_when. Qed.

(* once closed and drained: for ever; no later step yields or accepts a value *)
Theorem C10_drained_forever : forall (sch : list act) (s s' : st) (es : list ev),
  Drained s -> run_ev s sch = Some (s', es) -> Drained s' /\ Forall no_value es.
Proof. exact drained_forever. Qed.

(* ---------------------------------------------------------------- a range loop ends at close *)

Theorem C10_range_ends_at_close : forall (s : st) (j : nat),
  closed s = true -> buf s = [] -> busy j s = false ->
  step s (Take j) = Some (note s (EvIterEnd j), EvIterEnd j).
Proof. exact take_closed_drained. Qed.

Theorem C10_range_ends_only_at_close : forall (s : st) (j : nat) (s' : st),
  step s (Take j) = Some (s', EvIterEnd j) -> closed s = true /\ buf s = [] /\ s' = note s (EvIterEnd j).
Proof. exact take_end_only_when. Qed.

(* when a range loop ends it has been handed everything the channel released to it, and everything
   that was sent has been released *)
Theorem C10_range_complete : forall (prog : nat -> list N) (c : nat) (sch : list act) (s : st) (j : nat) (s' : st),
  run (init c prog) sch = Some s -> one_step_only sch = true ->
  step s (Take j) = Some (s', EvIterEnd j) ->
  closed s = true /\
  (forall i, from i (map snd (deq s)) ++ tag i (todo s i) = tag i (prog i)) /\
  by_key j (delivered (seen s)) = by_key j (deq s).
Proof. exact range_complete. Qed.

(* ---------------------------------------------------------------- every schedule, every step kind
   The generic Iterator methods Chan.Next / Chan.Entry (steps Next, Store, Count, Entry of the model) are no
   longer reached by scripts on a channel: range loops (0f2710a) and the builtins keys() / map() (ce76520) use
   Chan.NextEntry.  They remain exported Go API; what holds of EVERY schedule, those steps included: as many
   values handed out (plus steps in progress) as the channel released, and nothing that it did not release. *)
Theorem C10_all_schedules_count_and_origin : forall (prog : nat -> list N) (c : nat) (sch : list act) (s : st),
  run (init c prog) sch = Some s ->
  length (delivered (seen s)) + length (iters s) = length (deq s) /\
  NoDup (map fst (iters s)) /\
  (forall m, last s = Some m -> In m (map snd (deq s))) /\
  (forall p, In p (delivered (seen s)) -> In (snd p) (map snd (deq s))) /\
  (forall j ph m, In (j, (ph, m)) (iters s) -> In m (map snd (deq s))).
Proof. exact weak_all_schedules. Qed.

(* ---------------------------------------------------------------- wait() *)

Theorem C10_wait_result : forall (o : outcome) (sch : list tact) (s : tst) (k : nat) (r : option res),
  trun o tinit sch = Some s -> In (k, r) (waits s) ->
  r = Some (result_of o) \/ (tcancelled s = true /\ r = Some (RErr EWaitCtx)).
Proof. exact wait_result. Qed.

Theorem C10_wait_result_uncancelled : forall (o : outcome) (sch : list tact) (s : tst) (k : nat) (r : option res),
  trun o tinit sch = Some s -> ~ In TCancel sch -> In (k, r) (waits s) -> r = Some (result_of o).
Proof. exact wait_result_uncancelled. Qed.

(* ---------------------------------------------------------------- spawn arguments *)

Theorem C10_spawn_args_snapshot : forall (e : nat -> N) (sch : list sact) (s : sst) (t : nat) (vs : list N),
  srun (sinit true e) sch = Some s -> In (t, vs) (reads s) ->
  exists a b, nth_error (thr s) t = Some (a, b, vs).
Proof. exact args_snapshot. Qed.

(* ---------------------------------------------------------------- the acceptor run on observed histories *)

Theorem C10_accept_sound : forall (progs : list (list N)) (logs : list (list (nat * N))),
  accept progs logs = true ->
  exists d, (forall i, payloads (from i (map snd d)) = nth i progs []) /\ (forall j, by_key j d = nth j logs []).
Proof. exact accept_sound. Qed.

(* ---------------------------------------------------------------- non-vacuity *)

Definition ex_range_sch : list act :=
  [Send 0; Send 0; Take 1; Take 2; Fin 2; Fin 1; Close 0; Take 1; Take 2].

(* two goroutines range over one channel; receiver 2 finishes its step first, so it gets key 0 for the
   second value - and still every value is delivered exactly once *)
Example C10_exactly_once_satisfiable :
  exists s, run (init 2 (fun i => if Nat.eqb i 0 then [10; 11]%N else [])) ex_range_sch = Some s /\
            one_step_only ex_range_sch = true /\ buf s = [] /\ iters s = [] /\
            delivered (seen s) = [(2, (0, 11%N)); (1, (0, 10%N))] /\ entry_keys (seen s) = [0; 1].
Proof. eexists. split; [vm_compute; reflexivity|]. vm_compute. repeat split. Qed.

Example C10_wait_satisfiable :
  exists s, trun (Panics 4) tinit [TStep; TStep; TStep; Wait 0; Wait 1] = Some s /\
            waits s = [(0, Some (RErr (EPanic 4))); (1, Some (RErr (EPanic 4)))].
Proof. eexists. split; vm_compute; reflexivity. Qed.

Example C10_snapshot_satisfiable :
  exists s, srun (sinit true (fun _ => 7%N)) [SSpawn [0; 1]; SAssign 0 9%N; SPoke 0 0 5%N; SRead 0] = Some s /\
            reads s = [(0, [7; 7]%N)].
Proof. eexists. split; vm_compute; reflexivity. Qed.

Example C10_accept_examples :
  accept [[1; 2; 3]; [7; 8]]%N [[(0, 1%N); (0, 2%N); (1, 8%N)]; [(1, 7%N); (0, 3%N)]] = true /\
  accept [[1; 2; 3]; [7; 8]]%N [[(0, 2%N); (0, 1%N); (1, 8%N)]; [(1, 7%N); (0, 3%N)]] = false /\
  accept [[1; 2]]%N [[(0, 2%N)]; [(0, 2%N)]] = false /\
  weak_accept [[1; 2]]%N [[(0, 2%N)]; [(0, 2%N)]] = true /\
  weak_accept [[1; 2]]%N [[(0, 2%N)]; [(0, 5%N)]] = false.
Proof. vm_compute. repeat split. Qed.
